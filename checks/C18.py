"""C18 — SDP and address text forms round-trip and reject garbage safely."""
import json, os, socket, struct
from lib import vlib
from checks.common import conclude

MODULE = "Nice.Props.C18"
THEOREMS = [f"Nice.Props.C18.{t}" for t in (
    "C18_private_iff_ranges", "C18_linklocal_iff", "C18_bswap32_dotted", "C18_private_dotted", "C18_linklocal_dotted",
    "C18_private6_iff", "C18_linklocal6_iff",
    "C18_equal_refl", "C18_equal_symm", "C18_equal_trans_partial", "C18_equal_not_trans",
    "C18_equal_noport_of_equal", "C18_equal_text_consistent", "C18_equal_of_same_bytes",
    "C18_strtoull_fmtD", "C18_split_join", "C18_tokens_roundtrip", "C18_sdp_roundtrip",
    "C18_parse_total", "C18_parse_total_string", "C18_parse_valid_address", "C18_parse_valid_address_model",
    "C18_stream_roundtrip_partial")]
TRUSTED = [
    "Lean 4 kernel; axioms propext, Classical.choice, Quot.sound only (audited every run)",
    "tools/extract.py: ipv4_address_is_private, ipv4_address_is_linklocal, ipv6_address_is_private, "
    "ipv6_address_is_linklocal (agent/address.c) and NICE_CANDIDATE_MAX_FOUNDATION, NICE_STREAM_MAX_UFRAG/PWD, the "
    "candidate type / transport enum values are REGENERATED from the C source on every run; the classification theorems are "
    "about those regenerated definitions for all 2^32 / all 16-byte inputs (no sampling)",
    "hand-written: Nice/Model/Addr.lean (address.c + glibc inet_ntop / getaddrinfo(AI_NUMERICHOST) text forms) and "
    "Nice/Model/Sdp.lean (SDP code of agent.c + g_strsplit / g_ascii_strtoull / g_ascii_strcasecmp / g_strlcpy), tied to the real "
    "code by the misc_drv `addr` and `sdp` streams (real NiceAgent objects, candidates injected, nothing gathered)",
    "C18_sdp_roundtrip assumes of libc only that nice_address_set_from_string (nice_address_to_string a) = a (port and "
    "scope cleared) and that the text has no space and is not empty; this hypothesis is validated against glibc on "
    "every run (`addr rt`); printf %d / g_ascii_strtoull are modelled and their round trip is proved (C18_strtoull_fmtD)",
    "never-crashes is observed under ASan/UBSan on the generated inputs, not proved about the binary",
    "interface names as IPv6 scope ids (fe80::1%eth0) are host dependent and not generated",
]

RANGES4 = [(0x0a000000, 0x0affffff), (0xac100000, 0xac1fffff), (0xc0a80000, 0xc0a8ffff),
           (0xa9fe0000, 0xa9feffff), (0x7f000000, 0x7fffffff)]
LL4 = (0xa9fe0000, 0xa9feffff)


def priv4(h):
    return any(lo <= h <= hi for lo, hi in RANGES4)


def ll4(h):
    return LL4[0] <= h <= LL4[1]


def ll6(b):
    return b[0] == 0xfe and 0x80 <= b[1] <= 0xbf


def priv6(b):
    return ll6(b) or b[0] == 0xfd or b[0] in (0xfc, 0xfd) or bytes(b) == bytes(15) + b"\x01"


def hx(b):
    return bytes(b).hex() if len(b) else "-"


def unhex(s):
    return b"" if s == "-" else bytes.fromhex(s)


# ------------------------------------------------------------------ address values
class A:
    __slots__ = ("fam", "b", "port", "scope")

    def __init__(self, fam, b=b"", port=0, scope=0):
        self.fam, self.b, self.port, self.scope = fam, bytes(b), port, scope

    def w(self):
        return f"{self.fam}:{hx(self.b)}:{self.port}:{self.scope}" if self.fam else "0:-:0:0"

    def valid(self):
        return self.fam in (4, 6)


def parse_A(w):
    f, h, p, s = w.split(":")
    return A(int(f), unhex(h), int(p), int(s))


def eq_spec(a, b, port=True):
    """nice_address_equal as documented: same family, address, (port) and compatible scope"""
    if a.fam != b.fam or not a.valid():
        return False
    if a.b != b.b or (port and a.port != b.port):
        return False
    if a.fam == 6:
        return a.scope == 0 or b.scope == 0 or a.scope == b.scope
    return True


def ntop(a):
    return socket.inet_ntop(socket.AF_INET if a.fam == 4 else socket.AF_INET6, a.b)


V6_INTERESTING = [bytes(16), bytes(15) + b"\x01", bytes(15) + b"\x02", bytes(10) + b"\xff\xff\x01\x02\x03\x04",
                  bytes(12) + b"\x01\x02\x03\x04", bytes(12) + b"\x00\x00\x00\x05", bytes.fromhex("fe80") + bytes(13) + b"\x01",
                  bytes.fromhex("20010db8") + bytes(11) + b"\x01", bytes.fromhex("ff02") + bytes(13) + b"\x01",
                  bytes.fromhex("00010000000000010000000000000001"), bytes.fromhex("20010db8000100000000000100000000"),
                  bytes([0xff] * 16), bytes(14) + b"\x01\x00", bytes(8) + b"\x00\x01" + bytes(6),
                  bytes(10) + b"\xff\xff" + bytes(4), bytes(10) + b"\xff\xfe\x01\x02\x03\x04", b"\x00\x01" + bytes(14)]


def rand_v6(rng):
    k = rng.random()
    if k < 0.15:
        return rng.choice(V6_INTERESTING)
    if k < 0.55:
        # zero / non-zero pattern per 16-bit word: exercises the "::" run selection of inet_ntop
        pat = rng.randrange(256)
        out = b""
        for i in range(8):
            if pat >> i & 1:
                out += struct.pack(">H", rng.choice([1, 0xff, 0x100, 0xabcd, 0xffff, rng.randrange(1, 65536)]))
            else:
                out += b"\x00\x00"
        return out
    if k < 0.7:
        first = rng.choice([0xfe, 0xfd, 0xfc, 0xff, 0x00, 0x20, 0xfb, rng.randrange(256)])
        return bytes([first, rng.randrange(256)]) + bytes(rng.randrange(256) for _ in range(14))
    return bytes(rng.randrange(256) for _ in range(16))


def rand_v4(rng):
    k = rng.random()
    if k < 0.3:
        lo, hi = rng.choice(RANGES4)
        return struct.pack(">I", max(0, min(0xffffffff, rng.choice([lo, hi]) + rng.randrange(-3, 4))))
    if k < 0.5:
        return bytes(rng.choice([0, 1, 9, 10, 99, 100, 127, 169, 172, 192, 199, 200, 249, 250, 254, 255]) for _ in range(4))
    return struct.pack(">I", rng.randrange(2 ** 32))


def rand_addr(rng, port=None, scope=None, v6=None):
    if v6 is None:
        v6 = rng.random() < 0.45
    if port is None:
        port = rng.choice([0, 0, 1, 9, 80, 5000, 65535, rng.randrange(65536), rng.randrange(65536)])
    if v6:
        if scope is None:
            scope = rng.choice([0, 0, 0, 1, 2, 7, 2 ** 32 - 1])
        return A(6, rand_v6(rng), port, scope)
    return A(4, rand_v4(rng), port, 0)


# ------------------------------------------------------------------ candidates
TYPES = ["host", "srflx", "prflx", "relay"]
TRS = ["UDP", "TCP", "TCP", "TCP"]
TCPTYPES = ["", "active", "passive", "so"]
FCHARS = "abcdefghijklmnopqrstuvwxyzABCDEFGHIJKLMNOPQRSTUVWXYZ0123456789+/:-_.=,;!#$%&'()*<>?@[]^`{|}~\\\""
PRIOS = [1, 2, 255, 256, 0x7effffff, 0x7fffffff, 0x80000000, 0x80000001, 0xfffffffe, 0xffffffff, 2130706431, 1694498815]


class C:
    def __init__(self, ty, tr, addr, base, prio, comp, f):
        self.ty, self.tr, self.addr, self.base, self.prio, self.comp, self.f = ty, tr, addr, base, prio, comp, f

    def words(self):
        return f"{self.ty} {self.tr} {self.addr.w()} {self.base.w()} {self.prio} {self.comp} {hx(self.f)}"


def rand_foundation(rng, maxlen=32):
    n = rng.choice([0, 1, 1, 2, 3, 8, 10, 31, 32, rng.randrange(0, maxlen + 1)])
    n = min(n, maxlen)
    return "".join(rng.choice(FCHARS) for _ in range(n)).encode()


def rand_cand(rng, comp_max=256, allow_prio0=False, v6=None):
    addr = rand_addr(rng, v6=v6)
    k = rng.random()
    if k < 0.3:
        base = A(0)
    elif k < 0.45:
        base = A(addr.fam, addr.b, addr.port, addr.scope)
    elif k < 0.55:
        base = A(addr.fam, addr.b, rng.choice([0, 9, addr.port ^ 1, rng.randrange(65536)]), addr.scope)
    elif k < 0.6 and addr.fam == 6:
        base = A(6, addr.b, addr.port, rng.choice([0, 1, 3]))
    else:
        base = rand_addr(rng)
    pk = rng.random()
    prio = rng.choice(PRIOS) if pk < 0.4 else rng.randrange(1, 2 ** 31) if pk < 0.7 else rng.randrange(2 ** 31, 2 ** 32) if pk < 0.9 \
        else rng.randrange(1, 2 ** 32)
    if allow_prio0 and rng.random() < 0.03:
        prio = 0
    comp = rng.choice([1, 1, 2, 3, 255, 256, rng.randrange(1, 257)])
    comp = min(comp, comp_max) if comp_max < 256 else comp
    if comp_max < 256:
        comp = rng.randrange(1, comp_max + 1)
    return C(rng.randrange(4), rng.randrange(4), addr, base, prio, comp, rand_foundation(rng))


def i32(x):
    return x - 2 ** 32 if x >= 2 ** 31 else x


def sdp_line(c):
    """the RFC-style line the property expects for candidate c (independent of libnice and of the Lean model)"""
    s = f"a=candidate:{c.f.decode()} {i32(c.comp)} {TRS[c.tr]} {i32(c.prio)} {ntop(c.addr)} {c.addr.port or 9} typ {TYPES[c.ty]}"
    if c.base.valid() and not eq_spec(c.addr, c.base):
        s += f" raddr {ntop(c.base)} rport {c.base.port or 9}"
    if c.tr:
        s += f" tcptype {TCPTYPES[c.tr]}"
    return s


def expect_parsed(c, sid):
    """(type, transport, addr bytes, addr port, base or None, prio, sid, comp, foundation) the property demands"""
    base = None
    if c.base.valid() and not eq_spec(c.addr, c.base):
        base = (c.base.fam, c.base.b, c.base.port or 9)
    return (c.ty, c.tr, (c.addr.fam, c.addr.b, c.addr.port or 9), base, c.prio, sid, c.comp, c.f[:32])


def parse_cand_out(w):
    """`t,tr,addr,base,prio,sid,comp,fhex` -> comparable tuple"""
    t, tr, a, b, prio, sid, comp, f = w.split(",")
    a, b = parse_A(a), parse_A(b)
    return (int(t), int(tr), (a.fam, a.b, a.port), (b.fam, b.b, b.port) if b.valid() else None, int(prio), int(sid),
            int(comp), unhex(f)), a, b


# ------------------------------------------------------------------ mutation of SDP lines
def mutate_line(rng, line):
    """grammar-aware mutation of one candidate line (bytes in, bytes out, kind)"""
    pre, rest = line[:12], line[12:]
    toks = rest.split(b" ")
    kind = rng.choice(["del", "dup", "swap", "huge", "neg", "empty", "notyp", "badtr", "badaddr", "trailkey", "nonascii",
                       "case", "ws", "prefix", "trunc", "extrakv", "tcpnotype", "badtype", "scope", "v4forms", "long", "nul"])
    if kind == "del" and toks:
        del toks[rng.randrange(len(toks))]
    elif kind == "dup" and toks:
        i = rng.randrange(len(toks)); toks.insert(i, toks[i])
    elif kind == "swap" and len(toks) > 1:
        i, j = rng.randrange(len(toks)), rng.randrange(len(toks)); toks[i], toks[j] = toks[j], toks[i]
    elif kind == "huge":
        i = rng.choice([1, 3, 5, len(toks) - 1]) % max(1, len(toks))
        toks[i] = rng.choice([b"18446744073709551615", b"18446744073709551616", b"99999999999999999999999", b"4294967296",
                              b"4294967297", b"65536", b"65545", b"2147483648", b"340282366920938463463374607431768211456"])
    elif kind == "neg":
        i = rng.choice([1, 3, 5]) % max(1, len(toks))
        toks[i] = rng.choice([b"-1", b"-0", b"-2147483648", b"-4294967295", b"-18446744073709551615", b"-99999999999999999999",
                              b"+5", b"-", b"+", b"--1", b" 7", b"\t7", b"7x", b"0x10", b"1e3", b"1.5"])
    elif kind == "empty":
        i = rng.randrange(len(toks) + 1); toks.insert(i, b"")
    elif kind == "notyp":
        toks = [t for t in toks if t != b"typ"] if rng.random() < 0.5 else [b"TYP" if t == b"typ" else t for t in toks]
    elif kind == "badtr" and len(toks) > 2:
        toks[2] = rng.choice([b"udp", b"Udp", b"tcp", b"TCP-SO", b"tcp-act", b"TCP-PASS", b"TCP-ACTIVE", b"SCTP", b"", b"UDPX", b"UD",
                              b"TCP-", b"\xd4CP", b"uDP"])
    elif kind == "badaddr" and len(toks) > 4:
        toks[rng.choice([4, len(toks) - 3]) % len(toks)] = rng.choice(
            [b"1.2.3", b"1.2.3.4.5", b"256.1.1.1", b"1.2.3.-4", b"::g", b"1::2::3", b"localhost", b"", b"1.2.3.4%1", b"fe80::1%", b"::1%x",
             b"01.2.3.4", b"0x7f.1", b"1", b"4294967295", b"4294967296", b"0", b"00", b"08", b"::ffff:1.2.3.4", b"::1.2.3.4", b":", b"::",
             b":::", b"1:2:3:4:5:6:7:8:9", b"12345::", b"*", b"::1%4294967295", b"::1%4294967296", b"1.2.3.4\t", b"[::1]", b"0x",
             b"0X1F.0x2.03.4", b"1.2.0x10000", b"0377.1.1.1", b"0400.1.1.1", b"::0.0.0.0", b"::01.2.3.4", b"1:2:3:4:5:6:1.2.3.4",
             b"1:2:3:4:5:6:7:1.2.3.4", b"::1.2.3.4.5", b"::1.2.3"])
    elif kind == "trailkey":
        toks.append(rng.choice([b"typ", b"raddr", b"rport", b"tcptype", b"generation", b""]))
    elif kind == "nonascii":
        i = rng.randrange(len(toks)); t = bytearray(toks[i] or b"x")
        t[rng.randrange(len(t))] = rng.choice([0x80, 0xff, 0xc3, 0xa9, 0x01, 0x7f, 0x09, 0x0a, 0x0d, 0x0b, 0x0c])
        toks[i] = bytes(t)
    elif kind == "case":
        i = rng.randrange(len(toks)); toks[i] = toks[i].swapcase()
    elif kind == "ws":
        return pre + rest.replace(b" ", rng.choice([b"  ", b"\t", b" \t", b"\n"]), rng.randrange(1, 3)), kind
    elif kind == "prefix":
        pre = rng.choice([b"a=candidate", b"A=candidate:", b"candidate:", b"a=candidate: ", b"", b"a=candidate::", b" a=candidate:"])
    elif kind == "trunc":
        full = pre + b" ".join(toks)
        return full[:rng.randrange(len(full) + 1)], kind
    elif kind == "extrakv":
        i = min(len(toks), rng.choice([6, 8, len(toks)]))
        toks[i:i] = rng.choice([[b"generation", b"0"], [b"typ", b"relay"], [b"rport", b"0"], [b"raddr", b"9.9.9.9"], [b"raddr", b"bogus"],
                                [b"tcptype", b"ACTIVE"], [b"tcptype", b"bogus"], [b"ufrag", b"x"], [b"rport", b"65536"], [b"rport", b"-1"]])
    elif kind == "tcpnotype" and len(toks) > 2:
        toks[2] = rng.choice([b"TCP", b"tcp", b"Tcp"])
        out = []
        skip = False
        for t in toks:
            if skip:
                skip = False; continue
            if t == b"tcptype":
                skip = True; continue
            out.append(t)
        toks = out
    elif kind == "badtype":
        toks = [rng.choice([b"Host", b"hosts", b"", b"peer", b"relayed", b"srflx\x00"]) if t in (b"host", b"srflx", b"prflx", b"relay") else t for t in toks]
    elif kind == "scope" and len(toks) > 4:
        toks[4] = toks[4] + rng.choice([b"%1", b"%0", b"%4294967295", b"%4294967296", b"%", b"%x", b"%-1", b"%01", b"%1%2"])
    elif kind == "v4forms" and len(toks) > 4:
        toks[4] = rng.choice([b"1.2.3", b"1.2", b"16909060", b"0x1020304", b"01.02.03.04", b"1.2.772", b"0.0.0.0", b"255.255.255.255",
                              b"1.2.65535", b"1.16777215", b"1.16777216", b"0x0.0x0.0x0.0x0", b"00000000001.2.3.4"])
    elif kind == "long":
        i = rng.randrange(len(toks)); toks[i] = toks[i] + rng.choice([b"x", b"9", b":"]) * rng.choice([33, 100, 300, 5000])
    elif kind == "nul":
        i = rng.randrange(len(toks)); toks[i] = toks[i][:1] + b"\x00" + toks[i][1:]
    return pre + b" ".join(toks), kind


# ------------------------------------------------------------------ sessions
def sessions_for(tier, rng):
    S, meta = [], []          # meta[i] = kind of session i

    def add(kind, lines):
        S.append(lines); meta.append(kind)

    quick = tier == "quick"
    # 1. IPv4 classification: every range boundary +-1 (and +-2), then random, 1000 addresses per line
    bnd = {0, 1, 2 ** 32 - 1, 2 ** 32 - 2, 2 ** 31, 2 ** 31 - 1}
    for lo, hi in RANGES4:
        for d in (-2, -1, 0, 1, 2):
            bnd.add(lo + d); bnd.add(hi + d)
    bnd = sorted(bnd)
    add("class4", ["addr class 4 " + struct.pack(">I", h).hex() for h in bnd] +
        ["addr class 4 " + b"".join(struct.pack(">I", h) for h in bnd).hex()])
    n4 = 1000000 if quick else 4000000
    L = []
    for _ in range(n4 // 1000):
        buf = bytearray()
        for _ in range(1000):
            k = rng.random()
            if k < 0.5:
                h = rng.randrange(2 ** 32)
            elif k < 0.9:
                lo, hi = rng.choice(RANGES4)
                w = (hi - lo + 1)
                h = (lo - w // 4 + rng.randrange(w + w // 2)) % 2 ** 32
            else:
                lo, hi = rng.choice(RANGES4)
                h = (rng.choice([lo, hi]) + rng.randrange(-300, 300)) % 2 ** 32
            buf += struct.pack(">I", h)
        L.append("addr class 4 " + buf.hex())
    for i in range(0, len(L), 64):
        add("class4", L[i:i + 64])
    # 2. IPv6 classification: all 65536 (byte0, byte1) prefixes, the neighbourhood of ::1, random
    L = []
    for b0 in range(256):
        buf = bytearray()
        for b1 in range(256):
            tail = bytes(14) if rng.random() < 0.3 else bytes(rng.randrange(256) for _ in range(14))
            buf += bytes([b0, b1]) + tail
        L.append("addr class 6 " + buf.hex())
    buf = bytearray()
    for i in range(128):
        x = bytearray(15) + b"\x01"; x[i // 8] ^= 1 << (i % 8); buf += x
    for last in range(256):
        buf += bytes(15) + bytes([last])
    L.append("addr class 6 " + buf.hex())
    for _ in range(40 if quick else 400):
        L.append("addr class 6 " + b"".join(rand_v6(rng) for _ in range(250)).hex())
    L.append("addr class 0 -")
    for i in range(0, len(L), 40):
        add("class6", L[i:i + 40])
    # 3. to_string / from_string, both directions
    L = []
    for b in V6_INTERESTING:
        L.append("addr rt " + A(6, b, 0, 0).w())
    for pat in range(256):       # every zero-word pattern
        b = b"".join(struct.pack(">H", rng.choice([1, 0xabc, 0xffff]) if pat >> i & 1 else 0) for i in range(8))
        L.append("addr rt " + A(6, b, rng.choice([0, 5]), rng.choice([0, 3])).w())
    for _ in range(3000 if quick else 60000):
        L.append("addr rt " + rand_addr(rng).w())
    L.append("addr rt 0:-:0:0")
    for i in range(0, len(L), 500):
        add("rt", L[i:i + 500])
    L = []
    for _ in range(4000 if quick else 60000):
        a = rand_addr(rng)
        t = ntop(a).encode()
        k = rng.random()
        if a.fam == 6:
            if k < 0.2:
                t = t.upper()
            elif k < 0.35:
                t = ":".join(f"{x:04x}" for x in struct.unpack(">8H", a.b)).encode()
            elif k < 0.45:
                t = ":".join(f"{x:x}" for x in struct.unpack(">8H", a.b)).encode()
            elif k < 0.55:
                t = (":".join(f"{x:x}" for x in struct.unpack(">6H", a.b[:12])) + ":" + socket.inet_ntoa(a.b[12:])).encode()
            elif k < 0.7:
                t += b"%" + str(rng.choice([0, 1, 7, 2 ** 32 - 1, 2 ** 32, 10 ** 20])).encode()
            elif k < 0.8:
                t = mutate_text(rng, t)
        else:
            p = list(a.b)
            if k < 0.1:
                t = f"{p[0]}.{p[1]}.{p[2] * 256 + p[3]}".encode()
            elif k < 0.2:
                t = f"{p[0]}.{(p[1] << 16) + (p[2] << 8) + p[3]}".encode()
            elif k < 0.3:
                t = str(struct.unpack(">I", a.b)[0]).encode()
            elif k < 0.4:
                t = ".".join(rng.choice([f"0x{x:x}", f"0X{x:X}", f"0{x:o}", str(x)]) for x in p).encode()
            elif k < 0.5:
                t = ".".join(f"{x:03d}" for x in p).encode()
            elif k < 0.65:
                t = mutate_text(rng, t)
        L.append("addr rt2 " + hx(t))
    for t in (b"", b"*", b"1.2.3.4 ", b" 1.2.3.4", b"1.2.3.4\x00junk", b"::1\x00%9", b"\xff", b"%", b"%1", b"0x", b"0x.1", b"08", b"00"):
        L.append("addr rt2 " + hx(t))
    for i in range(0, len(L), 500):
        add("rt2", L[i:i + 500])
    # 4. equality laws
    L = []
    for _ in range(3000 if quick else 40000):
        a = rand_addr(rng)
        k = rng.random()
        if k < 0.2:
            b = A(a.fam, a.b, a.port, a.scope)
        elif k < 0.35:
            b = A(a.fam, a.b, rng.randrange(65536), a.scope)
        elif k < 0.5 and a.fam == 6:
            b = A(6, a.b, a.port, rng.choice([0, 1, 2, a.scope]))
        elif k < 0.6:
            x = bytearray(a.b); x[rng.randrange(len(x))] ^= 1 << rng.randrange(8); b = A(a.fam, x, a.port, a.scope)
        elif k < 0.65:
            b = A(0)
        else:
            b = rand_addr(rng)
        if rng.random() < 0.02:
            a = A(0)
        L += [f"addr eq {a.w()} {a.w()}", f"addr eq {a.w()} {b.w()}", f"addr eq {b.w()} {a.w()}",
              f"addr tostr {a.w()}", f"addr tostr {b.w()}"]
    for _ in range(1500 if quick else 20000):
        a = rand_addr(rng, v6=rng.random() < 0.7)
        mk = lambda: A(a.fam, a.b, a.port if rng.random() < 0.9 else rng.randrange(65536),
                       rng.choice([0, 0, 1, 2, 3]) if a.fam == 6 else 0)
        x, y, z = mk(), mk(), mk()
        if rng.random() < 0.1:
            z = rand_addr(rng)
        L.append(f"addr trans {x.w()} {y.w()} {z.w()}")
    for _ in range(300):
        a = rand_addr(rng); p = rng.choice([0, 1, 9, 65535, 65536, 65537, 70000, 2 ** 32 - 1, rng.randrange(2 ** 32)])
        L += [f"addr setport {a.w()} {p}", f"addr getport {a.w()}", f"addr valid {a.w()}"]
    L += ["addr setport 0:-:0:0 5", "addr getport 0:-:0:0", "addr valid 0:-:0:0", "addr tostr 0:-:0:0"]
    for i in range(0, len(L), 1000):
        add("eq", L[i:i + 1000])
    # 5. number <-> text (the hypotheses of the SDP round trip)
    L = []
    for x in [0, 1, -1, 9, 10, 2 ** 31 - 1, -2 ** 31, 65535, 65536, -65536, 99, 100, 999999999, 1000000000] + \
            [rng.randrange(-2 ** 31, 2 ** 31) for _ in range(1500 if quick else 20000)] + \
            [rng.choice([1, -1]) * 10 ** k + d for k in range(10) for d in (-1, 0, 1) if -2 ** 31 <= 10 ** k + d < 2 ** 31]:
        L += [f"addr fmtd {x}", "addr num " + hx(str(x).encode())]
    for _ in range(1500 if quick else 20000):
        L.append("addr num " + hx(rand_numtext(rng)))
    for i in range(0, len(L), 1000):
        add("num", L[i:i + 1000])
    # 6. candidate lines: generate with the real code, parse the result with the real code
    L = []
    cands = []
    for ty in range(4):
        for tr in range(4):
            for v6 in (False, True):
                for _ in range(12 if quick else 150):
                    c = rand_cand(rng, v6=v6); c.ty, c.tr = ty, tr
                    cands.append(c)
    for comp in list(range(1, 257)):
        c = rand_cand(rng); c.comp = comp; cands.append(c)
    for port in ([0, 1, 8, 9, 10, 65535] + [rng.randrange(65536) for _ in range(60 if quick else 2000)]):
        c = rand_cand(rng); c.addr.port = port; cands.append(c)
    for n in range(0, 33):
        c = rand_cand(rng); c.f = "".join(rng.choice(FCHARS) for _ in range(n)).encode(); cands.append(c)
    for p in PRIOS + [2 ** k for k in range(32)] + [2 ** k - 1 for k in range(1, 33)]:
        c = rand_cand(rng); c.prio = p; cands.append(c)
    for c in cands:
        sid = rng.choice([1, 1, 2, 7, 2 ** 32 - 1])
        L.append(f"sdp rtcand {sid} {c.words()}")
        if rng.random() < 0.3:
            L.append(f"sdp gencand {c.words()}")
    # outside the property's domain (model correspondence only): 33-byte foundation, odd enums, spaces, unset address
    for _ in range(60):
        c = rand_cand(rng)
        k = rng.randrange(5)
        if k == 0:
            c.f = "".join(rng.choice(FCHARS) for _ in range(rng.choice([33, 34, 40]))).encode()
        elif k == 1:
            c.ty = rng.choice([4, 5, 77])
        elif k == 2:
            c.tr = rng.choice([4, 9])
        elif k == 3:
            c.f = rng.choice([b"a b", b" ", b"x\ny", b"\xc3\xa9", b"a\tb"])
        else:
            c.addr = A(0)
        L.append(f"sdp rtcand {rng.choice([0, 1])} {c.words()}")
    for i in range(0, len(L), 400):
        add("cand", L[i:i + 400])
    # 7. grammar-aware mutated candidate lines
    L = []
    for _ in range(6000 if quick else 100000):
        c = rand_cand(rng)
        line = sdp_line(c).encode()
        if rng.random() < 0.1:
            L.append(f"sdp parsecand {rng.choice([1, 1, 1, 3, 0])} " + hx(line))
            continue
        for _ in range(rng.choice([1, 1, 1, 2, 3])):
            line, kind = mutate_line(rng, line)
        L.append(f"sdp parsecand 1 {hx(line)}")
    for t in (b"", b"a=candidate:", b"a=candidate: ", b"a=candidate:      ", b"a=candidate:1 1 UDP 1 1.2.3.4 5", b"a=candidate:1 1 UDP 1 1.2.3.4 5 typ",
              b"a=candidate:1 1 UDP 1 1.2.3.4 5 typ host x", b"a=candidate:1 1 UDP 1 1.2.3.4 5 x y typ host", b"garbage"):
        L.append("sdp parsecand 1 " + hx(t))
    for _ in range(300 if quick else 5000):
        L.append("sdp parsecand 1 " + hx(bytes(rng.randrange(256) for _ in range(rng.randrange(0, 80)))))
        L.append("sdp parsecand 1 " + hx(b"a=candidate:" + bytes(rng.choice(b" 0123456789.:typhosUDPTCacrelx-\xff") for _ in range(rng.randrange(0, 80)))))
    for i in range(0, len(L), 500):
        add("mutcand", L[i:i + 500])
    # 8. stream level: two real agents, 1..4 named streams
    names = [b"audio", b"video", b"text", b"application", b"message", b"image"]
    for si in range(120 if quick else 1500):
        L = []
        ns = 1 + si % 4
        counts = [rng.choice([1, 1, 2, 2, 3, 4]) for _ in range(ns)]
        if si % 40 == 7:
            counts[rng.randrange(ns)] = 256
        L.append("sdp new " + " ".join(map(str, counts)))
        if ns >= 2 and rng.random() < 0.3:
            # a stream removed on both sides: ids are never reused, the remaining streams are no longer numbered 1..n
            # (the n-th m= section still belongs to the n-th remaining stream)
            gone = rng.randrange(1, ns + 1)
            L.append(f"sdp rm a {gone}")
            L.append(f"sdp rm b {gone}")
        nm = rng.sample(names, ns)
        for s in range(ns):
            k = rng.random()
            if k < 0.8:
                L.append(f"sdp name {s + 1} {hx(nm[s])}")
            elif k < 0.87:
                L.append(f"sdp name {s + 1} {hx(rng.choice([b'x', b'', b'au dio', b'data']))}")
            elif k < 0.93 and s:
                L.append(f"sdp name {s + 1} {hx(nm[0])}")
            if rng.random() < 0.85:
                ul = rng.choice([0, 1, 4, 4, 22, 255, 256, 257, 300]); pl = rng.choice([0, 1, 22, 22, 22, 255, 256, 257, 400])
                cs = FCHARS + "   "
                L.append(f"sdp cred {s + 1} {hx(''.join(rng.choice(cs) for _ in range(ul)).encode())} "
                         f"{hx(''.join(rng.choice(cs) for _ in range(pl)).encode())}")
        if rng.random() < 0.05:
            L.append(f"sdp cred {rng.choice([0, ns + 1])} 61 62")
            L.append(f"sdp name {rng.choice([0, ns + 1])} 617564696f")
        dup_ok = rng.random() < 0.15
        seen = set()
        for s in range(ns):
            for _ in range(rng.choice([0, 1, 2, 3, 5, 8])):
                c = rand_cand(rng, comp_max=counts[s], allow_prio0=True)
                if rng.random() < 0.6:
                    c.addr = rand_addr(rng, v6=False)
                if rng.random() < 0.3 and c.comp > 1:
                    c.f = b"shared"
                key = (s, c.comp, c.addr.fam, c.addr.b, c.addr.port or 9, c.tr, c.ty)
                if key in seen and not dup_ok:
                    continue
                seen.add(key)
                L.append(f"sdp local {s + 1} {c.words()}")
                if rng.random() < 0.25:
                    # a twin on the same address, port and transport with ANOTHER type (an un-NATed peer advertises its host
                    # candidate and an identical server-reflexive one): two candidates, both must survive the round trip
                    t = rand_cand(rng, comp_max=counts[s])
                    t.addr, t.tr, t.comp = c.addr, c.tr, c.comp
                    t.ty = rng.choice([x for x in range(4) if x != c.ty])
                    k2 = (s, t.comp, t.addr.fam, t.addr.b, t.addr.port or 9, t.tr, t.ty)
                    if k2 not in seen:
                        seen.add(k2)
                        L.append(f"sdp local {s + 1} {t.words()}")
            if rng.random() < 0.03:
                c = rand_cand(rng); c.comp = counts[s] + 1
                L.append(f"sdp local {s + 1} {c.words()}")
        if rng.random() < 0.1:
            L.append("sdp forcerelay 1")
        L.append("sdp gen")
        for s in range(ns):
            L.append(f"sdp genstream {s + 1} {rng.randrange(2)}")
            L.append(f"sdp xferstream {s + 1} {rng.randrange(2)}")
        if rng.random() < 0.1:
            L.append(f"sdp genstream {rng.choice([0, ns + 1])} 1"); L.append(f"sdp xferstream {rng.choice([0, ns + 1])} 1")
        L.append("sdp xfer")
        if rng.random() < 0.3:
            L.append("sdp xfer")      # second transfer takes the update-existing path
        L.append("sdp state")
        add("stream", L)
    # 9. mutated multi-line SDP into agent B
    for si in range(150 if quick else 2500):
        ns = 1 + si % 4
        counts = [rng.choice([1, 2, 3]) for _ in range(ns)]
        L = ["sdp new " + " ".join(map(str, counts))]
        lines = []
        for s in range(ns):
            lines.append(b"m=" + rng.choice(names) + b" 5000 ICE/SDP")
            lines.append(b"c=IN IP4 1.2.3.4")
            lines.append(b"a=ice-ufrag:" + rand_foundation(rng, 300))
            lines.append(b"a=ice-pwd:" + rand_foundation(rng, 300))
            for _ in range(rng.randrange(0, 5)):
                c = rand_cand(rng, comp_max=counts[s], allow_prio0=True)
                ln = sdp_line(c).encode()
                if rng.random() < 0.12:
                    ln, _k = mutate_line(rng, ln)
                lines.append(ln)
        for _ in range(rng.choice([0, 0, 1, 2, 3])):
            k = rng.randrange(7)
            if k == 0 and lines:
                del lines[rng.randrange(len(lines))]
            elif k == 1 and lines:
                i = rng.randrange(len(lines)); lines.insert(i, lines[i])
            elif k == 2 and len(lines) > 1:
                i, j = rng.randrange(len(lines)), rng.randrange(len(lines)); lines[i], lines[j] = lines[j], lines[i]
            elif k == 3:
                lines.insert(rng.randrange(len(lines) + 1), rng.choice([b"m=extra 1 ICE/SDP", b"", b"\r", b"a=ice-ufrag:", b"a=ice-pwd:",
                                                                        b"a=candidate:", b"a=ice-options:trickle", b"m=", b"a=candidate:1 9 UDP 1 1.2.3.4 5 typ host"]))
            elif k == 4:
                lines = [l + b"\r" for l in lines]
            elif k == 5 and lines:
                lines = lines[rng.randrange(len(lines)):]
            elif k == 6 and lines:
                i = rng.randrange(len(lines)); lines[i] = bytes(rng.randrange(1, 256) for _ in range(rng.randrange(20)))
        text = b"\n".join(lines) + (b"\n" if rng.random() < 0.8 else b"")
        L.append("sdp parse " + hx(text))
        if rng.random() < 0.3:
            L.append(f"sdp parsestream {rng.randrange(0, ns + 2)} " + hx(text))
        if rng.random() < 0.2:
            L.append("sdp parse " + hx(text))
        L.append("sdp state")
        add("mutsdp", L)
    return S, meta


def mutate_text(rng, t):
    t = bytearray(t)
    for _ in range(rng.choice([1, 1, 2])):
        k = rng.randrange(5)
        if k == 0 and t:
            del t[rng.randrange(len(t))]
        elif k == 1:
            t.insert(rng.randrange(len(t) + 1), rng.choice(b"0123456789abcdefABCDEFx:.% g\t-+"))
        elif k == 2 and t:
            t[rng.randrange(len(t))] = rng.choice(b"0123456789abcdefx:.%\xff")
        elif k == 3 and t:
            i = rng.randrange(len(t)); t[i:i] = t[i:i + rng.randrange(1, 4)]
        else:
            t += rng.choice([b".", b":", b"::", b"%1", b".1", b":1", b" "])
    return bytes(t)


def rand_numtext(rng):
    k = rng.random()
    if k < 0.3:
        core = str(rng.choice([rng.randrange(2 ** 64), rng.randrange(2 ** 70), 2 ** 64 - 1, 2 ** 64, 2 ** 64 + 1, 18446744073709551609,
                               18446744073709551610, 1844674407370955161, 18446744073709551615, 18446744073709551616, 2 ** 32, 2 ** 32 - 1,
                               2 ** 16, 10 ** 25, 0])).encode()
    elif k < 0.5:
        core = bytes(rng.choice(b"0123456789") for _ in range(rng.randrange(0, 30)))
    else:
        core = bytes(rng.choice(b"0123456789 +-\t\n\r\x0b\x0cxa.e\xff") for _ in range(rng.randrange(0, 12)))
    pre = rng.choice([b"", b"", b"-", b"+", b" ", b"  -", b"\t+", b"- ", b"\n", b"\x0b\x0c\r"])
    suf = rng.choice([b"", b"", b" ", b"x", b".5", b"-1"])
    return pre + core + suf


def strtoull_spec(t):
    """C strtoull(.., 10) on a byte string (reference semantics, independent of the model)"""
    i = 0
    while i < len(t) and t[i] in b" \t\n\v\f\r":
        i += 1
    neg = False
    if i < len(t) and t[i] in b"+-":
        neg = t[i] == ord("-"); i += 1
    j = i
    while j < len(t) and 48 <= t[j] <= 57:
        j += 1
    if j == i:
        return 0
    v = int(t[i:j])
    if v > 2 ** 64 - 1:
        return 2 ** 64 - 1
    return (-v) % 2 ** 64 if neg else v


# ------------------------------------------------------------------ implementation-side oracle
class Stats:
    def __init__(self):
        self.ops, self.results, self.errors = {}, {}, {}
        self.nontrivial = set()
        self.known = []

    def op(self, k):
        self.ops[k] = self.ops.get(k, 0) + 1

    def res(self, k):
        self.results[k] = self.results.get(k, 0) + 1

    def err(self, k):
        self.errors[k] = self.errors.get(k, 0) + 1


def split_crit(o):
    if " !" in o:
        a, b = o.rsplit(" !", 1)
        return a, int(b)
    return o, 0


def tcp_without_tcptype(text):
    """input class of the recorded finding: transport token is TCP (any case) and no `tcptype <value>` pair is seen"""
    if not text.startswith(b"a=candidate:"):
        return False
    t = text[12:].split(b"\x00")[0]
    toks = t.split(b" ") if t else []
    if len(toks) < 8 or toks[2].lower() != b"tcp":
        return False
    i = 6
    while i + 1 < len(toks):
        if toks[i] == b"tcptype":
            return False
        i += 2
    return True


def oracle(session, out, st):
    """the PROPERTY evaluated on the implementation's outputs; returns a failure string or None"""
    agentA = None     # python-side record of what was put into agent A (stream sessions)
    eqs, texts = {}, {}
    for line, o in zip(session, out):
        w = line.split()
        kind = w[0] + " " + w[1]
        st.op(kind)
        if o == "bad-op":
            st.res("bad-op"); continue
        body, crit = split_crit(o)
        if crit:
            st.err(f"{kind} critical")
        if kind == "addr class":
            fam = int(w[2])
            if fam == 0:
                continue
            b = unhex(w[3]); step = 4 if fam == 4 else 16
            if len(body) != len(b) // step:
                return f"classification output has wrong length for `{line[:80]}`"
            for k in range(len(body)):
                x = b[k * step:(k + 1) * step]
                if fam == 4:
                    h = struct.unpack(">I", x)[0]; want = (1 if priv4(h) else 0) + (2 if ll4(h) else 0)
                else:
                    want = (1 if priv6(x) else 0) + (2 if ll6(x) else 0)
                if int(body[k]) != want:
                    return (f"classification of {ntop(A(fam, x))} is private={int(body[k]) & 1} linklocal={int(body[k]) >> 1}, "
                            f"the RFC 1918/3927/4193/loopback ranges give private={want & 1} linklocal={want >> 1}")
                if want:
                    st.nontrivial.add((fam, x))
            st.res("class")
        elif kind == "addr rt":
            a = parse_A(w[2])
            if not a.valid():
                continue
            text, back = body.split(" ")
            if back == "fail":
                return f"from_string (to_string {a.w()}) fails; text was {unhex(text)!r}"
            b = parse_A(back)
            if (b.fam, b.b) != (a.fam, a.b) or b.port != 0:
                return f"from_string (to_string {a.w()}) = {back} (text {unhex(text)!r})"
            if unhex(text).decode() != ntop(a):
                return f"to_string {a.w()} = {unhex(text)!r}, inet_ntop gives {ntop(a)!r}"
            st.res("rt ok"); st.nontrivial.add(("rt", a.fam, a.b))
        elif kind == "addr rt2":
            if body == "fail":
                st.res("fromstr fail"); continue
            a1, text, a2 = body.split(" ")
            if a2 == "fail":
                return f"to_string (from_string {unhex(w[2])!r}) = {unhex(text)!r} does not parse back"
            x, y = parse_A(a1), parse_A(a2)
            if (x.fam, x.b) != (y.fam, y.b):
                return f"to_string (from_string {unhex(w[2])!r}) = {unhex(text)!r} is not canonical: parses to {a2}, not {a1}"
            if not x.valid():
                return f"from_string {unhex(w[2])!r} succeeded with an invalid address"
            st.res("fromstr ok"); st.nontrivial.add(("rt2", w[2]))
        elif kind == "addr eq":
            a, b = parse_A(w[2]), parse_A(w[3])
            e, n = body[0] == "1", body[1] == "1"
            if e != eq_spec(a, b) or n != eq_spec(a, b, port=False):
                return f"equal({w[2]}, {w[3]}) = {body}, expected {int(eq_spec(a, b))}{int(eq_spec(a, b, False))}"
            if e and not n:
                return f"equal but not equal_no_port for {w[2]} {w[3]}"
            if a.valid() and w[2] == w[3] and not e:
                return f"equality is not reflexive on {w[2]}"
            st.res("eq " + body)
            eqs[(w[2], w[3])] = (e, n)
            if (w[3], w[2]) in eqs and eqs[(w[3], w[2])] != (e, n):
                return f"equality is not symmetric on {w[2]} {w[3]}: {eqs[(w[3], w[2])]} vs {(e, n)}"
            if e:
                st.nontrivial.add(("eq", w[2], w[3]))
        elif kind == "addr trans":
            x, y, z = parse_A(w[2]), parse_A(w[3]), parse_A(w[4])
            for off, port in ((0, True), (4, False)):
                ab, bc, ac = (body[off + i] == "1" for i in range(3))
                if (ab, bc, ac) != (eq_spec(x, y, port), eq_spec(y, z, port), eq_spec(x, z, port)):
                    return f"equality results {body} for {w[2]} {w[3]} {w[4]} differ from the documented rule"
                if ab and bc and not ac:
                    cls = (x.fam == y.fam == z.fam == 6 and x.b == y.b == z.b and y.scope == 0 and x.scope != z.scope
                           and x.scope != 0 and z.scope != 0 and (not port or x.port == y.port == z.port))
                    if cls:
                        st.known.append(("scope", line))
                    else:
                        return f"equality is not transitive on {w[2]} {w[3]} {w[4]} (outside the scope-id wildcard class)"
            st.res("trans " + body)
        elif kind == "addr tostr":
            a = parse_A(w[2])
            if a.valid() and unhex(body).decode() != ntop(a):
                return f"to_string {w[2]} = {unhex(body)!r}, inet_ntop gives {ntop(a)!r}"
            st.res("tostr")
            texts[w[2]] = body
        elif kind == "addr fromstr":
            st.res("fromstr " + ("fail" if body == "fail" else "ok"))
        elif kind == "addr fmtd":
            if unhex(body) != str(int(w[2])).encode():
                return f"printf %d of {w[2]} printed {unhex(body)!r}"
            st.res("fmtd")
        elif kind == "addr num":
            t = unhex(w[2]).split(b"\x00")[0]
            if int(body) != strtoull_spec(t):
                return f"g_ascii_strtoull({t!r}) = {body}, C semantics give {strtoull_spec(t)}"
            st.res("num"); st.nontrivial.add(("num", w[2]))
        elif kind in ("addr setport", "addr getport", "addr valid"):
            a = parse_A(w[2])
            if kind == "addr setport" and a.valid() and parse_A(body).port != int(w[3]) % 65536:
                return f"set_port {w[3]} on {w[2]} gives {body}"
            if kind == "addr getport" and a.valid() and int(body) != a.port:
                return f"get_port {w[2]} = {body}"
            if kind == "addr valid" and body != f"{int(a.valid())} {a.fam}":
                return f"is_valid/ip_version {w[2]} = {body}"
            st.res(kind.split()[1])
        elif kind == "sdp rtcand":
            sid = int(w[2])
            c = C(int(w[3]), int(w[4]), parse_A(w[5]), parse_A(w[6]), int(w[7]), int(w[8]), unhex(w[9]))
            in_domain = (sid >= 1 and c.ty < 4 and c.tr < 4 and c.addr.valid() and len(c.f) <= 32 and 1 <= c.comp <= 256
                         and not any(ch in c.f for ch in b" \n\x00") and all(32 < ch < 127 for ch in c.f))
            if not in_domain:
                st.res("rtcand out-of-domain"); continue
            text, rest = body.split(" ", 1)
            if unhex(text) != sdp_line(c).encode():
                return f"generated SDP {unhex(text)!r}, expected {sdp_line(c)!r}"
            if crit:
                return f"GLib critical while generating/parsing the well-formed candidate `{line}`"
            if rest == "none":
                return f"the generated line {unhex(text)!r} does not parse back"
            got, ga, gb = parse_cand_out(rest.split(" ", 1)[1])
            if got != expect_parsed(c, sid):
                return f"parse(generate(c)) = {got}, expected {expect_parsed(c, sid)} for `{line}`"
            st.res("rtcand ok"); st.nontrivial.add(("rtcand", line))
        elif kind == "sdp gencand":
            st.res("gencand")
        elif kind == "sdp parsecand":
            text = unhex(w[3]).split(b"\x00")[0]
            if crit:
                if int(w[2]) == 0 and crit == 1:
                    pass          # g_return_val_if_fail (stream_id >= 1): caller error, not text
                else:   # (TCP without tcptype used to raise one: fixed in /repo 310e8d2)
                    return f"GLib critical ({crit}) while parsing {text!r}"
            if body == "none":
                st.res("parse none"); continue
            got, ga, gb = parse_cand_out(body.split(" ", 1)[1])
            if not ga.valid() or len(ga.b) != (4 if ga.fam == 4 else 16):
                return f"parsing {text!r} produced a candidate without a valid address: {body}"
            if got[0] > 3 or got[1] > 3 or len(got[7]) > 32:
                return f"parsing {text!r} produced an out-of-range candidate: {body}"
            st.res("parse cand"); st.nontrivial.add(("parse", w[3]))
        elif kind == "sdp new":
            agentA = {"counts": [int(x) for x in w[2:]], "cred": {}, "locals": [], "relay": False, "dups": False}
            for i in range(len(agentA["counts"])):
                agentA["cred"][i + 1] = (f"ufrag{i + 1}".encode(), f"password{i + 1}".encode())
            st.res("new")
        elif kind == "sdp rm":
            if agentA is not None and w[2] == "a":
                agentA["cred"].pop(int(w[3]), None)
                agentA["locals"] = [(s_, c) for s_, c in agentA["locals"] if s_ != int(w[3])]
            st.res("rm")
        elif kind == "sdp cred":
            if body == "1" and agentA is not None:
                agentA["cred"][int(w[2])] = (unhex(w[3])[:256], unhex(w[4])[:256])
            st.res("cred " + body)
        elif kind == "sdp local":
            if body == "ok" and agentA is not None:
                c = C(int(w[3]), int(w[4]), parse_A(w[5]), parse_A(w[6]), int(w[7]), int(w[8]), unhex(w[9]))
                agentA["locals"].append((int(w[2]), c))
            st.res("local " + body)
        elif kind == "sdp forcerelay":
            if agentA is not None:
                agentA["relay"] = w[2] != "0"
        elif kind == "sdp xferstream":
            if body == "null" or agentA is None:
                st.res("xferstream null"); continue
            sid = int(w[2])
            f = dict(x.split("=", 1) for x in body.split(" ")[:2])
            u, p = agentA["cred"].get(sid, (b"", b""))
            if "\n" not in (u + p).decode("latin1"):
                if f["u"] == "null" or f["p"] == "null" or unhex(f["u"]) != u or unhex(f["p"]) != p:
                    return f"stream {sid}: credentials {f} after generate->parse, agent A holds {(u, p)}"
            lst = body.split(" [", 1)[1][:-1]
            got = [parse_cand_out(x)[0] for x in lst.split("|")] if lst else []
            want = [expect_parsed(c, sid) for s, c in agentA["locals"] if s == sid and (not agentA["relay"] or c.ty == 3)]
            ok_dom = all(len(c.f) <= 32 for s, c in agentA["locals"])
            # the list is built with g_slist_prepend: reverse order
            if ok_dom and sorted(map(repr, got)) != sorted(map(repr, want)):
                return f"stream {sid}: parsed candidates {got} differ from the generated ones {want}"
            if crit:
                return f"GLib critical during stream SDP round trip `{line}`"
            st.res("xferstream ok"); st.nontrivial.add(("xs", tuple(session[:12]), line))
        elif kind == "sdp xfer":
            if agentA is None:
                continue
            ret = int(body.split(" ")[0].split("=")[1])
            state = parse_state(body.split(" ", 1)[1] if " " in body else "")
            if crit:
                return f"GLib critical during generate_local_sdp -> parse_remote_sdp: {o[-60:]}"
            if ret < 0:
                return f"parse_remote_sdp rejected the SDP generated by a real agent (ret {ret})"
            for sid, (u, p) in agentA["cred"].items():
                if b"\n" in u + p:
                    continue
                if state.get(sid, {}).get("u") != u or state.get(sid, {}).get("p") != p:
                    return f"stream {sid}: remote credentials {state.get(sid)} != local credentials of the generating agent {(u, p)}"
            # (a remote candidate is the same candidate only if address, port, transport AND type agree)
            keys = [(s, c.comp, c.addr.fam, c.addr.b, c.addr.port or 9, c.tr, c.ty) for s, c in agentA["locals"]]
            if len(set(keys)) == len(keys) and all(len(c.f) <= 32 for s, c in agentA["locals"]):
                for sid in agentA["cred"]:
                    want = [expect_parsed(c, sid) for s, c in agentA["locals"]
                            if s == sid and c.ty != 2 and c.prio != 0 and (not agentA["relay"] or c.ty == 3)]
                    got = state.get(sid, {}).get("cands", [])
                    akeys = [k[:6] for k in keys]
                    if len(set(akeys)) != len(akeys):
                        # twins (same address / port / transport, different types): a SECOND transfer appends the twin again
                        # (the look-up by address finds the other type first) — outside the statement, which is about one
                        # generate -> parse; compare as sets
                        got, want = list({repr(x): x for x in got}.values()), list({repr(x): x for x in want}.values())
                    if sorted(map(repr, got)) != sorted(map(repr, want)):
                        return f"stream {sid}: remote candidates after parse_remote_sdp {got} differ from the local candidates generated {want}"
            st.res("xfer ok"); st.nontrivial.add(("xfer", tuple(session[:12])))
        elif kind in ("sdp parse", "sdp state", "sdp parsestream"):
            text = unhex(w[-1]) if kind != "sdp state" else b""
            if kind == "sdp parsestream":
                lst = body.split(" [", 1)[1][:-1]
                cl = [parse_cand_out(x) for x in lst.split("|")] if lst else []
                addrs = [a for _, a, _b in cl]
            else:
                sbody = body.split(" ", 1)[1] if kind == "sdp parse" and " " in body else (body if kind == "sdp state" else "")
                stt = parse_state(sbody)
                addrs = [a for s in stt.values() for a in s["addrs"]]
                if kind == "sdp parse":
                    st.res("parse ret " + ("neg" if body.startswith("ret=-") else "nonneg"))
            if any(not a.valid() for a in addrs):
                return f"a remote candidate without a valid address was accepted: {body[:300]}"
            if crit:
                # allowed: the documented "More streams in SDP than in agent" g_critical, stream_id 0, and the recorded finding
                lines = text.split(b"\x00")[0].split(b"\n")
                n_known = sum(1 for l in lines if tcp_without_tcptype(l))
                n_m = sum(1 for l in lines if l.startswith(b"m="))
                if not (n_m or (kind == "sdp parsestream" and w[2] == "0")):
                    return f"GLib critical ({crit}) while parsing SDP text {text[:200]!r}"
            st.res(kind.split()[1])
        else:
            st.res(kind)
    # equality consistent with the text form: equal (ignoring ports) addresses print the same text; valid addresses of
    # one family with the same text and compatible scope ids are equal
    for (x, y), (e, n) in eqs.items():
        if x in texts and y in texts:
            a, b = parse_A(x), parse_A(y)
            if n and texts[x] != texts[y]:
                return f"{x} and {y} are equal_no_port but print as {unhex(texts[x])!r} / {unhex(texts[y])!r}"
            if (a.valid() and a.fam == b.fam and texts[x] == texts[y] and (a.fam == 4 or a.scope == b.scope or 0 in (a.scope, b.scope))
                    and not n):
                return f"{x} and {y} print the same text {unhex(texts[x])!r} but are not equal_no_port"
    return None


def parse_state(s):
    """`s1 u=.. p=.. c1[..|..] c2[..] s2 ...` -> {sid: {u, p, cands, addrs}}"""
    out, cur = {}, None
    for tok in s.split(" "):
        if not tok:
            continue
        if tok[0] == "s" and tok[1:].isdigit():
            cur = out.setdefault(int(tok[1:]), {"u": None, "p": None, "cands": [], "addrs": []})
        elif tok.startswith("u="):
            cur["u"] = unhex(tok[2:])
        elif tok.startswith("p="):
            cur["p"] = unhex(tok[2:])
        elif tok[0] == "c" and "[" in tok:
            for x in tok[tok.index("[") + 1:-1].split("|"):
                t, a, b = parse_cand_out(x)
                cur["cands"].append(t); cur["addrs"].append(a)
    return out


def sweep_sessions(tier):
    if tier == "thorough":
        step = 2 ** 32 // 64
        return [[f"addr sweep4 {i * step} {(i + 1) * step}"] for i in range(64)]
    S = []
    for lo, hi in RANGES4:
        a, b = max(0, lo - 65536), min(2 ** 32, hi + 1 + 65536)
        n = max(1, (b - a) // (2 ** 21))
        st = (b - a + n - 1) // n
        for i in range(n):
            S.append([f"addr sweep4 {a + i * st} {min(b, a + (i + 1) * st)}"])
    S += [["addr sweep4 0 65536"], [f"addr sweep4 {2 ** 32 - 65536} {2 ** 32}"], [f"addr sweep4 {2 ** 31 - 65536} {2 ** 31 + 65536}"]]
    return S


KNOWN_TEXT = {}


def load_known():
    for r in vlib.known_findings():
        if r.get("property") == "C18" and r.get("status") == "known":
            KNOWN_TEXT["scope" if "nice_address_equal" in r.get("site", "") else "tcptype"] = r["text"]


def load_corpus():
    d = os.path.join(vlib.ROOT, "corpus", "C18")
    out = []
    if os.path.isdir(d):
        for f in sorted(os.listdir(d)):
            if f.endswith(".ops"):
                out.append([l.strip() for l in open(os.path.join(d, f)) if l.strip() and not l.startswith("#")])
    return out


def run(tier, seed):
    chk = vlib.Check("C18", tier, seed)
    chk.cov["trusted_base"] = TRUSTED
    chk.assumptions = [
        "libc: nice_address_set_from_string (nice_address_to_string a) = a with port/scope cleared, and the text is non-empty "
        "without spaces (hypotheses of C18_sdp_roundtrip; validated on every generated address by `addr rt`)",
        "well-formed candidate = foundation <= 32 printable characters without space/newline, component 1..256, "
        "type/transport in range, valid IPv4/IPv6 address",
        "nice_address_equal is not transitive across IPv6 scope ids (recorded known finding); transitivity is proved for "
        "equal-or-both-zero scope ids",
        "candidates of type prflx or priority 0 are dropped by nice_agent_parse_remote_sdp (priv_add_remote_candidate); the "
        "per-candidate round trip is evaluated on parse_remote_candidate_sdp / parse_remote_stream_sdp for those",
    ]
    load_known()
    st = vlib.std_pipeline(chk, MODULE, THEOREMS)
    diverged, ofail = [], []
    if st["libs"]:
        ok, exe, log = vlib.build_harness("misc_drv")
        if not ok:
            chk.note("harness build failed: " + log[-1500:])
            st["libs"] = False; st["log"] = log
        else:
            corpus = load_corpus()
            gen, meta = sessions_for(tier, chk.rng)
            S = corpus + gen
            meta = ["corpus"] * len(corpus) + meta
            outs, errs = vlib.run_impl(exe, S)
            stats = Stats()
            for i, (s, o) in enumerate(zip(S, outs)):
                if o is None:
                    eo = errs.get(i, ([], 0, ""))
                    k = len(eo[0]) - 1
                    ofail.append({"session": s[:k + 1][-30:] if k >= 0 else s[:30], "why": "implementation crashed / sanitizer report",
                                  "failing_op": s[k][:2000] if 0 <= k < len(s) else None, "stderr": eo[2][-2500:]})
                    stats.err("crash")
                    continue
                try:
                    why = oracle(s, o, stats)
                except Exception as e:      # malformed output is a failure of the harness contract
                    why = f"oracle could not interpret the implementation output: {e!r}"
                if why:
                    ofail.append({"session": s if len(s) <= 40 else minimise(s, o, stats), "why": why})
            # exhaustive / windowed IPv4 sweep: implementation only
            SW = sweep_sessions(tier)
            souts, serrs = vlib.run_impl(exe, SW)
            swept = 0
            for s, o in zip(SW, souts):
                if o is None:
                    ofail.append({"session": s, "why": "sweep crashed"}); continue
                f = o[0].split()
                swept += int(f[1])
                if int(f[3]) != 0:
                    h = int(f[9])
                    ofail.append({"session": [f"addr class 4 {struct.pack('>I', h).hex()}"],
                                  "why": f"{f[3]} IPv4 addresses in {s[0]} are classified differently from the RFC ranges; first {socket.inet_ntoa(struct.pack('>I', h))}"})
            # known findings: report, do not fail
            seen = set(k for k, _ in stats.known)
            for k in sorted(seen):
                chk.known(KNOWN_TEXT.get(k, f"(unrecorded class {k})"))
                if k not in KNOWN_TEXT:
                    ofail.append({"session": [l for kk, l in stats.known if kk == k][:3],
                                  "why": f"finding class `{k}` observed but not recorded in KNOWN_FINDINGS.jsonl"})
            if os.path.exists(vlib.model_exe()):
                diverged, total = vlib.diff_sessions(exe, S)
            nops = sum(len(s) for s in S)
            n4 = sum(len(unhex(l.split()[3])) // 4 for s in S for l in s if l.startswith("addr class 4"))
            n6 = sum(len(unhex(l.split()[3])) // 16 for s in S for l in s if l.startswith("addr class 6"))
            chk.cov["evaluations"] = nops + n4 + n6 + swept
            chk.cov["traces_validated_against_impl"] = len(S) - len(diverged)
            chk.cov["distinct_nontrivial"] = len(stats.nontrivial)
            chk.cov["rule"] = ("evaluations = protocol ops + individual addresses classified through both sides (IPv4 %d, IPv6 %d) + IPv4 "
                               "addresses swept on the implementation against the numeric ranges (%d%s); non-trivial = distinct private/"
                               "link-local addresses, successful text round trips, equal pairs, accepted candidates and stream transfers"
                               % (n4, n6, swept, " = all 2^32" if swept == 2 ** 32 else ""))
            kinds = {}
            for m in meta:
                kinds[m] = kinds.get(m, 0) + 1
            first = {}
            for m, s in zip(meta, S):
                first.setdefault(m, [l[:160] for l in s[:2]])
            chk.cov["samples"] = list(first.values())[:10]
            chk.cov["generator_distribution"] = {"session_kinds": kinds, "op_kinds": stats.ops, "result_kinds": stats.results,
                                                 "error_kinds": stats.errors, "corpus_sessions": len(corpus),
                                                 "ipv4_swept_on_implementation": swept,
                                                 "known_finding_hits": {k: sum(1 for kk, _ in stats.known if kk == k) for k in seen}}
    return conclude(chk, st, diverged, ofail, "misc_drv:addr/sdp")


def minimise(s, o, stats):
    """keep the prefix needed for context (stateful stream sessions) or the single failing line"""
    for i in range(len(s)):
        st2 = Stats()
        try:
            if oracle(s[:i + 1], o[:i + 1], st2):
                return ([l for l in s[:i] if l.startswith("sdp ")] + [s[i]]) if s[i].startswith("sdp ") and not s[i].startswith(("sdp rtcand", "sdp parsecand", "sdp gencand")) else [s[i]]
        except Exception:
            return [s[i]]
    return s[:40]


def replay(path):
    if path.endswith(".ops"):
        s = [l.strip() for l in open(path) if l.strip() and not l.startswith("#")]
    else:
        r = json.load(open(path))
        s = r.get("session")
        if not s:
            print(json.dumps(r, indent=1)); return 0
    load_known()
    vlib.ensure_libs(); vlib.extract(); vlib.lake_build(["nicemodel"])
    ok, exe, log = vlib.build_harness("misc_drv")
    io, rc, err = vlib.run_lines(exe, ["reset"] + s)
    mo, _, _ = vlib.run_lines(vlib.model_exe(), ["reset"] + s)
    for l, a, b in zip(["reset"] + s, io + ["<no output>"] * len(s), mo + ["<no output>"] * len(s)):
        print(f"{l[:100]:100s}\n   impl:  {a[:300]}\n   model: {b[:300]}")
    if len(io) < len(s) + 1:
        print("implementation died:", err[-2000:]); return 1
    stx = Stats()
    why = oracle(s, io[1:], stx)
    for k in sorted(set(k for k, _ in stx.known)):
        print(f"KNOWN-FINDING: property=C18 {KNOWN_TEXT.get(k, k)}")
    print("oracle:", why)
    return 1 if why else 0
