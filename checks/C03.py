"""C03 — Only authenticated peers influence the agent or reach the application."""
import json, os, re, struct
from lib import vlib, simlib, stunpy
from checks.common import conclude
from checks import simcommon as sc

MODULE = "Nice.Props.C03"
THEOREMS = [f"Nice.Props.C03.{t}" for t in (
    "C03_state_change_needs_auth", "C03_forged_is_stutter", "C03_data_gate", "C03_control_only_if_stun",
    "C03_lookalike_delivered")] + [
    "Nice.Props.C03Flow.C03_inbound_effects_need_auth", "Nice.Props.C03Flow.C03_discovery_agents_only_validate_responses",
    "Nice.Props.C03Flow.C03_inbound_consumes_control_traffic", "Nice.Props.C03Flow.summary_ok", "Nice.Flow.reach_sound",
    "Nice.Props.C04.C04_unmatched_is_response", "Nice.Props.C03Recv.C03_data_only_from_validated_source", "Nice.Props.C03Recv.C03_reliable_data_only_from_validated_source",
    "Nice.Props.C03Recv.summary_ok", "Nice.Flow.run_exec"]
TRUSTED = [
    "Lean 4 kernel; axioms propext, Classical.choice, Quot.sound only (audited every run)",
    "Nice/Model/Gate.lean: hand-written status->effect table of conn_check_handle_inbound_stun and the demultiplexer of "
    "agent_recv_message_unlocked (status numbers regenerated from stunagent.h); that SUCCESS/FORBIDDEN imply a correct "
    "MESSAGE-INTEGRITY is property C04's theorem about the STUN validation model",
    "Nice/Gen/InboundStun.lean: effect-dominance skeleton of conn_check_handle_inbound_stun REGENERATED from the source on every "
    "run by tools/extract_flow.py (tracked: the validation status, which STUN agent produced it, the message class; every other "
    "condition is nondeterministic, every call not on the translator's printed list of pure helpers is an event); the theorems "
    "C03_inbound_* hold for every execution of that skeleton (Nice/Model/Flow.lean: big-step semantics + reachability analysis with "
    "a kernel-checked soundness proof, evaluated by `decide +kernel`).  Trusted: the translator, the purity list, the semantics "
    "`Exec`, and that stun_agent_validate returns UNMATCHED_RESPONSE only for responses (theorem C04_unmatched_is_response "
    "about the validation model)",
    "Nice/Gen/RecvMessage.lean: skeleton of agent_recv_message_unlocked regenerated the same way (tracked: the returned RecvStatus, the "
    "answer of nice_component_verify_remote_candidate, the answer of the STUN handler; `goto done` as a block exit): RECV_SUCCESS only "
    "after the source gate said yes and the handler did not claim the datagram (C03_data_only_from_validated_source)",
    "tie = paired simulations of two real agents: the same seeded session is run with and without an off-path attacker "
    "(random bytes, STUN of every class/method with correct USERNAME and missing / truncated / empty / over-long / wrong-key "
    "MESSAGE-INTEGRITY, forged responses and 487/403 errors with guessed transaction ids, role-flipping ICE-CONTROLLING, "
    "RTP-like media, spoofed or foreign source addresses) injected from gathering to READY; the application-visible traces "
    "must be identical and every reply to the attacker must be what the gate model allows (400/401/420 or nothing)",
    "ICE-TCP: separate sessions in which a foreign party opens real loopback TCP connections to an agent's tcp-passive candidate "
    "before, during and after negotiation and writes RFC 4571 frames (data, STUN-lookalikes, garbage); nothing of it may reach the "
    "application; half of the UDP sessions gather against a slow / silent scripted STUN server (pending credential-less discovery "
    "transactions) and the attacker also sends RFC 3489 style cookie-less requests and indications",
    "the cryptographic step (without the password the MAC cannot be produced) is outside Lean and outside the simulation",
]
APP_EV = re.compile(r"t=\d+ (\w+) (state|selected|recv|new-remote-candidate|gathering-done|new-candidate|writable|streams-removed) (.*)")


def app_trace(s):
    out = []
    for e in s.events():
        m = APP_EV.match(e)
        if m:
            rest = re.sub(r"getter=\w+ ", "", m.group(3))
            out.append(f"{m.group(1)} {m.group(2)} {rest}")
    return out


def attack_packets(rng, ufrag_target, ufrag_peer, n, kinds=None):
    """returns list of (kind, bytes)"""
    pk = []
    uname = (ufrag_target + ":" + ufrag_peer).encode()
    for _ in range(n):
        kind = rng.choice(kinds) if kinds else rng.choice(["random", "random-stunlike", "req-nomi", "req-trunc", "req-empty", "req-long", "req-wrongkey",
                           "req-wrongkey-fp", "resp-forged", "err487", "err403", "indication", "rtp", "othermethod",
                           "req-wrongkey-badfp", "indication-bare", "indication-wrongkey", "nocookie-req", "nocookie-req", "nocookie-ind",
                           "rejected-then-resp", "rejected-then-resp", "ptcp", "ptcp"])
        txid = bytes(rng.randrange(256) for _ in range(12))
        attrs = [(stunpy.A_USERNAME, uname), (stunpy.A_PRIORITY, struct.pack("!I", rng.randrange(1, 2 ** 31))),
                 (stunpy.A_CONTROLLING, struct.pack("!Q", 2 ** 64 - 1)), (stunpy.A_USE_CAND, b"")]
        if rng.random() < 0.3:
            attrs[2] = (stunpy.A_CONTROLLED, struct.pack("!Q", 0))
        wrongkey = bytes(rng.randrange(33, 126) for _ in range(22))
        if kind == "random":
            p = bytes(rng.randrange(256) for _ in range(rng.choice([0, 1, 3, 19, 20, 21, 60, 200])))
        elif kind == "random-stunlike":
            body = bytes(rng.randrange(256) for _ in range(rng.choice([0, 4, 8, 24])))
            p = struct.pack("!HHI", rng.choice([0x0001, 0x0101, 0x0111, 0x0011]), len(body), stunpy.MAGIC) + txid + body
        elif kind == "req-nomi":
            p = stunpy.build(0, 1, txid, attrs, key=None, fingerprint=True)
        elif kind == "req-trunc":
            p = stunpy.build(0, 1, txid, attrs, key=wrongkey, mi_mutation="truncate", fingerprint=rng.random() < 0.5)
        elif kind == "req-empty":
            p = stunpy.build(0, 1, txid, attrs, key=wrongkey, mi_mutation="empty", fingerprint=rng.random() < 0.5)
        elif kind == "req-long":
            p = stunpy.build(0, 1, txid, attrs, key=wrongkey, mi_mutation="long", fingerprint=True)
        elif kind == "req-wrongkey":
            p = stunpy.build(0, 1, txid, attrs, key=wrongkey)
        elif kind == "req-wrongkey-fp":
            p = stunpy.build(0, 1, txid, attrs, key=wrongkey, fingerprint=True)
        elif kind == "req-wrongkey-badfp":
            p = stunpy.build(0, 1, txid, attrs, key=wrongkey, fingerprint=True, bad_fp=True)
        elif kind == "ptcp":
            # well-formed pseudo-TCP segments with libnice's fixed conversation number 0: a CONNECT followed by a data segment
            # (or a lone RST) — for a reliable agent, data only its validated peer may feed into the pseudo-TCP socket
            now = rng.randrange(1 << 31)
            hdr = lambda seq, flags, payload: struct.pack(">IIIBBHII", 0, seq, 0, 0, flags, 4096, now, 0) + payload
            if rng.random() < 0.8:
                p = (hdr(0, 2, bytes([0])), hdr(1, 0, b"EVIL" + bytes(rng.randrange(256) for _ in range(rng.choice([1, 20, 200])))))
            else:
                p = hdr(rng.choice([0, 1]), 4, b"")
        elif kind == "rejected-then-resp":
            # a request the agent rejects (401/400), followed from the same source by a response / error response that
            # reuses its transaction id: the id of a REJECTED request is not an outstanding transaction of the agent
            bad = stunpy.build(0, 1, txid, attrs, key=rng.choice([wrongkey, None]), fingerprint=True)
            cls2 = rng.choice([2, 2, 3])
            body = [(stunpy.A_XOR_MAPPED, b"\x00\x01" + struct.pack("!H", 0x1234 ^ 0x2112) + bytes(4))] if cls2 == 2 else \
                   [(stunpy.A_ERROR, stunpy.error_attr(rng.choice([403, 487, 401])))]
            p = (bad, stunpy.build(cls2, 1, txid, body, key=rng.choice([None, None, wrongkey]), fingerprint=True))
        elif kind == "resp-forged":
            p = stunpy.build(2, 1, txid, [(stunpy.A_XOR_MAPPED, b"\x00\x01" + struct.pack("!H", 0x1234 ^ 0x2112) + bytes(4))],
                             key=wrongkey, fingerprint=True)
        elif kind == "err487":
            p = stunpy.build(3, 1, txid, [(stunpy.A_ERROR, stunpy.error_attr(487))], key=wrongkey, fingerprint=True)
        elif kind == "err403":
            p = stunpy.build(3, 1, txid, [(stunpy.A_ERROR, stunpy.error_attr(403))], key=wrongkey, fingerprint=True)
        elif kind == "indication":
            p = stunpy.build(1, 1, txid, attrs[:1], key=None, fingerprint=True)
        elif kind == "nocookie-req":
            # RFC 3489 style (no magic cookie) request: bare, or with the usual check attributes, never authenticated
            q = bytearray(stunpy.build(0, 1, txid, rng.choice([[], attrs, attrs[:1]]), key=None, fingerprint=False))
            q[4:8] = bytes(rng.randrange(256) for _ in range(4))
            p = bytes(q)
        elif kind == "nocookie-ind":
            q = bytearray(stunpy.build(1, 1, txid, rng.choice([[], attrs[:1]]), key=None, fingerprint=False))
            q[4:8] = bytes(rng.randrange(256) for _ in range(4))
            p = bytes(q)
        elif kind == "indication-bare":
            p = stunpy.build(1, 1, txid, [], key=None, fingerprint=rng.random() < 0.5)
        elif kind == "indication-wrongkey":
            p = stunpy.build(1, 1, txid, attrs, key=wrongkey, fingerprint=True)
        elif kind == "othermethod":
            p = stunpy.build(rng.randrange(4), rng.choice([2, 3, 4, 6, 8, 9, 0xfff]), txid, attrs, key=wrongkey, fingerprint=True)
        else:
            p = bytes([0x80, 96]) + bytes(rng.randrange(256) for _ in range(rng.choice([10, 40, 160])))
        pk.append((kind, p))
    return pk


def session(exe, seed, attack):
    """returns (app trace, replies-to-attacker, delivered attacker payloads, script, final queries)"""
    import random
    rng = random.Random(f"C03/{seed}")
    cfg = sc.base_config(rng)
    lat = rng.choice([1, 5, 20])
    cfg.update(loss=0, dup=0, lat=lat, anyorder=False, tickcost0=True)
    # a third of the sessions: consent freshness on, the peer vanishes after READY while the attacker keeps talking
    vanish = rng.random() < 0.35
    if vanish:
        cfg.update(consent=1)
    # half of the sessions gather against a slow / silent STUN server: discovery transactions (whose STUN agents do not
    # use the stream credentials) are pending while the attacker injects
    if rng.random() < 0.5:
        cfg.update(stunsrv=rng.choice(["d", "ddd", "l", "dl", "s"]))
    flood = rng.random() < 0.06
    # a fifth of the sessions use reliable agents (pseudo-TCP over the UDP pair): datagrams that arrive before a pair is selected
    # are parked for the pseudo-TCP socket, so the source gate has to come first
    if rng.random() < 0.2 and not vanish:
        cfg.update(extra_opts=2)
    s = sc.start_session(exe, seed, cfg)
    s.op(f"net latency {lat} {lat}")          # constant latency: the network draws no random numbers
    s.op("net tickcost 0")                    # dispatching costs no virtual time: injected packets cannot shift timing
    arng = random.Random(f"C03-attack/{seed}")
    ua = s.op("getcreds A 1")[1].split()[4]
    ub = s.op("getcreds B 1")[1].split()[4]
    # addresses of the agents' sockets (from the new-candidate events)
    addrs = {"A": [], "B": []}
    for e in s.events():
        m = re.match(r"t=\d+ (\w+) new-candidate \d+ type=0 .* addr=(\S+) base", e)
        if m:
            addrs[m.group(1)].append(m.group(2))
    replies, delivered = [], []
    n_inj = 0
    s.inj_sources = {}      # payload hex -> set of "foreign" / "spoofed"

    def inject(k, kinds=None):
        nonlocal n_inj
        if not attack:
            return
        for kind, p in attack_packets(arng, ub if arng.random() < 0.5 else ua, ua, k, kinds):
            tgt = arng.choice("AB")
            dst = arng.choice(addrs[tgt])
            other = "A" if tgt == "B" else "B"
            # (reliable agents: foreign sources only — a datagram carrying the validated peer's own address is, for an unauthenticated
            #  pseudo-TCP stream, the peer's segment; spoofing the peer is outside what the source gate can decide)
            if kind == "rtp" or arng.random() < 0.6 or cfg.get("extra_opts", 0) & 2:
                src = f"127.0.9.{arng.randrange(1, 250)}:{arng.randrange(1024, 65000)}"
            else:
                src = arng.choice(addrs[other])       # spoofed peer address
            for q in (p if isinstance(p, tuple) else (p,)):
                s.op(f"inject {src} {dst} {stunpy_hex(q)}")
                s.inj_sources.setdefault(stunpy_hex(q), set()).add("foreign" if src.startswith("127.0.9.") else "spoofed")
                n_inj += 1

    steps = sc.signalling_steps(rng, cfg)
    if flood:
        # more rejected requests at one socket than a STUN agent has transaction slots, before any legitimate check
        tgt = arng.choice("AB")
        dst = arng.choice(addrs[tgt])
        uname = ((ua if tgt == "A" else ub) + ":" + (ub if tgt == "A" else ua)).encode()
        for k in range(arng.choice([210, 260])):
            q = stunpy.build(0, 1, bytes(arng.randrange(256) for _ in range(12)),
                             [(stunpy.A_USERNAME, uname), (stunpy.A_PRIORITY, struct.pack("!I", 1 + k))],
                             key=bytes(arng.randrange(33, 126) for _ in range(22)), fingerprint=True)
            if attack:
                s.op(f"inject 127.0.9.{1 + k % 200}:{2000 + k} {dst} {stunpy_hex(q)}")
                n_inj += 1
            if k % 40 == 39:
                s.op("run 30")
        s.op("run 100")
    inject(6)
    for st in steps:
        s.op(st)
        inject(arng.choice([0, 1, 3]) if attack else 0)
        if rng.random() < 0.6:
            d = rng.choice([0, 1, 20, 100, 300])
            s.op(f"run {d}")
    for _ in range(6):
        inject(4)
        s.op("run 150")
    s.op("runidle 60000")
    inject(8)
    s.op("run 500")
    if vanish:
        # both directions go dark for 45 s (longer than the 30 s consent timeout); injected datagrams still arrive.
        # Unauthenticated traffic must not stand in for the peer's consent: both runs must fail at the same instant.
        t0 = int(re.search(r"t=(\d+)", s.op("stats")[1]).group(1))
        s.op(f"net blackout * * {t0} {t0 + 45000}")
        for _ in range(45):
            inject(2, ["indication", "indication-bare", "indication-wrongkey", "resp-forged", "req-wrongkey-fp", "req-nomi", "rtp",
                       "rejected-then-resp", "rejected-then-resp"])
            s.op("run 1000")
        s.op("run 3000")
    # legitimate data still flows
    s.op("send A 1 1 c0ffee")
    s.op("run 100")
    res = sc.final_queries(s, cfg["ncomp"])
    return s, cfg, res, n_inj


def stunpy_hex(b):
    return b.hex() if b else "-"


def scenario(args):
    exe, seed, tier = args
    s1 = s2 = None
    try:
        s1, cfg, res1, _ = session(exe, seed, attack=False)
        s2, _, res2, n_inj = session(exe, seed, attack=True)
        bad = []
        t1, t2 = app_trace(s1), app_trace(s2)
        # datagrams injected with the peer's own (already validated) source address are indistinguishable from the
        # peer's traffic for a UDP receiver: their delivery is not a violation and is removed before comparing
        spoofed = {h for h, srcs in s2.inj_sources.items() if "spoofed" in srcs}
        t2 = [x for x in t2 if not (" recv " in x and x.split()[-1] in spoofed)]
        norm = lambda l: [re.sub(r":\d{4,5}\b", ":P", x) for x in l]
        def split(tr):
            """per (agent, component) sequences: the relative order of callbacks of different components / agents
            depends on sub-millisecond scheduling and is not part of the property"""
            d = {}
            for x in tr:
                w = x.split()
                mm = re.search(r"comp=(\d+)", x)
                comp = mm.group(1) if mm else (w[3] if w[1] in ("state", "selected", "recv", "writable") else "-")
                d.setdefault((w[0], comp), []).append(re.sub(r" found=\S+", "", x))
            return d
        d1, d2 = split(norm(t1)), split(norm(t2))
        for key in sorted(set(d1) | set(d2)):
            ag = f"{key[0]}/component {key[1]}"
            a, b = d1.get(key, []), d2.get(key, [])
            if a != b:
                k = 0
                while k < min(len(a), len(b)) and a[k] == b[k]:
                    k += 1
                bad.append(("interference", f"application-visible trace of {ag} differs at event {k}: clean "
                                            f"`{a[k] if k < len(a) else '<end>'}` vs attacked `{b[k] if k < len(b) else '<end>'}`"))
        norm_q = lambda r: json.loads(re.sub(r":\d{4,5}\b", ":P", json.dumps({str(k): v for k, v in r.items()})))
        if norm_q(res1) != norm_q(res2):
            bad.append(("interference", f"final states/roles/pairs differ: clean {res1} attacked {res2}"))
        # replies to the attacker: only 400 / 401 / 420 errors (or nothing); attacker payloads never delivered
        for e in s2.events():
            m = re.match(r"t=\d+ tx (\w+) \S+->127\.0\.9\.\d+:\d+ len=\d+ (.*)", e)
            if m:
                mm = re.search(r"stun class=(\d) method=\d+ .*err=(\d+)", m.group(2))
                if not mm or mm.group(1) != "3" or mm.group(2) not in ("400", "401", "420"):
                    bad.append(("reply-to-attacker", f"agent answered an unauthenticated source with: {e[:170]}"))
            m = re.match(r"t=\d+ (\w+) recv \d+ \d+ (\w+)", e)
            if m and m.group(2) != "c0ffee" and s2.inj_sources.get(m.group(2)) == {"foreign"}:
                bad.append(("attacker-data-delivered", f"application received a datagram that the peer never sent: {e[:120]}"))
        ready = all(q[0]["state"] == "READY" and q[1]["state"] == "READY" for q in res2.values())
        return dict(seed=seed, cfg=cfg, bad=bad, script=s2.script, n_inj=n_inj, ready=ready, nev=len(t2))
    except simlib.SimDied as e:
        return dict(seed=seed, cfg={}, bad=[("crash", str(e)[-1500:])], script=(s2 or s1).script if (s2 or s1) else [],
                    n_inj=0, ready=False, nev=0)
    finally:
        for s in (s1, s2):
            if s:
                s.close()


def tcp_scenario(args):
    """ICE-TCP: a party that knows nothing opens its own TCP connections to an agent's tcp-passive candidate (before any
    check and after READY) and writes RFC 4571 framed payloads, STUN-lookalikes and garbage.  Nothing of it may reach the
    application, no candidate / pair / state may come from it, and the legitimate peer's data still arrives."""
    exe, seed, tier = args
    import random
    rng = random.Random(f"C03tcp/{seed}")
    s = simlib.Sim(exe)
    bad = []
    n_inj = 0
    try:
        s.op(f"net seed {seed}"); s.op("net trace 0"); s.op("net latency 1 1")
        s.op("new A ctrl=1 compat=0 opts=0 icetcp=1 iceudp=0")
        s.op("new B ctrl=0 compat=0 opts=0 icetcp=1 iceudp=0")
        for ag in "AB":
            s.op(f"stream {ag} 1"); s.op(f"attach {ag} 1"); s.op(f"gather {ag} 1")
        s.op("run 100")
        passive = {}
        for e in s.events():
            m = re.match(r"t=\d+ (\w+) new-candidate \d+ type=0 tr=2 comp=1 .* addr=(\S+) base", e)
            if m:
                passive[m.group(1)] = m.group(2)
        victim = rng.choice("AB")
        other = "B" if victim == "A" else "A"

        def frames(tag):
            out = b""
            for k in range(rng.randint(1, 3)):
                kind = rng.choice(["data", "data", "stunlike", "short", "big"])
                if kind == "data":
                    pl = f"EVIL-{tag}-{k}".encode() + bytes(rng.randrange(256) for _ in range(rng.choice([0, 5, 100])))
                elif kind == "stunlike":
                    pl = stunpy.build(rng.choice([0, 1, 2]), 1, bytes(rng.randrange(256) for _ in range(12)),
                                      [(stunpy.A_USERNAME, b"ab:cd")], key=b"wrongwrongwrongwrongww", fingerprint=True)
                elif kind == "short":
                    pl = bytes(rng.randrange(256) for _ in range(rng.choice([1, 2, 3])))
                else:
                    pl = b"EVIL-big" + bytes(rng.randrange(256) for _ in range(3000))
                out += struct.pack("!H", len(pl)) + pl
            return out

        foreign = set()

        def attack(tag):
            nonlocal n_inj
            if victim not in passive:
                return
            for c in range(rng.randint(1, 2)):
                name = f"x{tag}{c}"
                stt = s.op(f"tcpconn {name} {passive[victim]}")[1]
                if " local " in stt:
                    foreign.add(stt.split(" local ")[1].strip())
                s.op("settle 60")
                s.op(f"tcpsend {name} {frames(tag).hex()}")
                n_inj += 1
                s.op("settle 60"); s.op("run 20")
        attack("pre")
        for st in ("creds A 1 B 1", "creds B 1 A 1", "cands A 1 1 B 1", "cands B 1 1 A 1"):
            s.op(st)
            if rng.random() < 0.4:
                attack("mid")
        s.op("settle 300"); s.op("runidle 30000"); s.op("settle 300"); s.op("run 500")
        qa, qb = simlib.parse_q(s.op("q A 1 1")[1]), simlib.parse_q(s.op("q B 1 1")[1])
        ready = qa["state"] == "READY" and qb["state"] == "READY"
        attack("post")
        # connections opened earlier write again now that a legitimate TCP check has completed
        for name in [l.split()[1] for l in s.script if l.startswith("tcpconn")][:3]:
            s.op(f"tcpsend {name} {frames('late').hex()}")
            s.op("settle 60"); s.op("run 20")
        s.op(f"send {other} 1 1 c0ffee"); s.op("settle 200"); s.op("run 200")
        got = [m.group(2) for e in s.events() for m in [re.match(r"t=\d+ (\w+) recv 1 1 (\S+)", e)] if m]
        for g in got:
            try:
                raw = bytes.fromhex(g) if g != "-" else b""
            except ValueError:
                raw = b""
            if raw.startswith(b"EVIL") or (g != "c0ffee" and raw):
                bad.append(("attacker-data-delivered", f"the application received {raw[:24]!r}... ({len(raw)} bytes) that the peer never sent "
                                                       f"(foreign TCP connection to {victim}'s passive candidate)"))
                break
        if ready and "c0ffee" not in got:
            bad.append(("legit-data-lost", "the peer's own message did not arrive while foreign TCP connections were open"))
        for e in s.events():
            m = re.search(r"new-remote-candidate .* addr=(\S+) base", e)
            if m and m.group(1) in foreign:
                bad.append(("interference", f"remote candidate created from a foreign TCP connection: {e[:140]}"))
            m = re.search(r" selected \d+ \d+ .*", e)
            if m and any(f in e for f in foreign):
                bad.append(("interference", f"a pair with a foreign TCP connection was selected: {e[:140]}"))
        return dict(seed=seed, cfg={"transport": "icetcp", "victim": victim}, bad=bad, script=s.script, n_inj=n_inj, ready=ready, nev=len(s.events()))
    except simlib.SimDied as e:
        return dict(seed=seed, cfg={"transport": "icetcp"}, bad=[("crash", str(e)[-1500:])], script=s.script, n_inj=n_inj, ready=False, nev=0)
    finally:
        s.close()


def run(tier, seed):
    chk = vlib.Check("C03", tier, seed)
    chk.cov["trusted_base"] = TRUSTED
    st = vlib.std_pipeline(chk, MODULE, THEOREMS)
    diverged, ofail = [], []
    if st["libs"]:
        ok, exe, log = sc.build_sim()
        if not ok:
            chk.note("harness build failed: " + log[-1500:]); st["libs"] = False; st["log"] = log
        else:
            n = 150 if tier == "quick" else 3000
            res = simlib.run_parallel(scenario, [(exe, seed * 100000 + i, tier) for i in range(n)])
            res += simlib.run_parallel(tcp_scenario, [(exe, seed * 100000 + i, tier) for i in range(max(n // 5, 20))])
            for r in res:
                for kind, what in r["bad"]:
                    ofail.append({"why": f"{kind}: {what}", "config": r["cfg"], "session": r["script"]})
            chk.cov["evaluations"] = len(res)
            chk.cov["distinct_nontrivial"] = sum(1 for r in res if r["ready"] and r["n_inj"] > 10)
            chk.cov["traces_validated_against_impl"] = sum(1 for r in res if not r["bad"])
            chk.cov["rule"] = ("one evaluation = a PAIR of simulated sessions with the same seed, one of them with 40-80 forged datagrams "
                               "injected between gathering and READY and afterwards; non-trivial = pairs in which the attacked session "
                               "still reached READY on every component")
            chk.cov["samples"] = [[l for l in res[0]["script"] if l.startswith("inject")][:6]]
            chk.cov["generator_distribution"] = {"injected_total": sum(r["n_inj"] for r in res),
                                                 "icetcp_foreign_connection_sessions": sum(1 for r in res if r["cfg"].get("transport") == "icetcp"),
                                                 "sessions_ready": sum(1 for r in res if r["ready"])}
    return conclude(chk, st, diverged, ofail, "sim_drv:C03 paired non-interference runs")


def replay(path):
    r = json.load(open(path))
    s = r.get("session")
    if not s:
        print(json.dumps(r, indent=1)); return 0
    vlib.ensure_libs()
    ok, exe, log = sc.build_sim()
    out, err, rc = simlib.replay_script(exe, s)
    print(out[-8000:]); print(err[-2000:])
    return 0
