"""C12 — Any sequence of public API calls is memory-safe, leak-free and never spins."""
import json, os, re, subprocess
from lib import vlib, simlib
from checks.common import conclude
from checks import simcommon as sc

MODULE = "Nice.Props.C12"
THEOREMS = [f"Nice.Props.C12.{t}" for t in (
    "C12_reachable_wf", "WF_step", "wfb_iff", "C12_no_dangling", "C12_remove_preserves", "C12_last_refresh_closes",
    "C12_keepalive_removed_with_last_stream", "C12_keepalive_rearm", "C12_consent_rearm")]
TRUSTED = [
    "Lean 4 kernel; axioms propext, Classical.choice, Quot.sound only (audited every run)",
    "Nice/Model/Lifecycle.lean carries only the BOOKKEEPING of the property (which containers mention a stream, which stream "
    "object owns each TURN refresh while it is disposed asynchronously, keepalive timer ownership) and the timer re-arm "
    "arithmetic. Tie: around every nice_agent_add_stream / nice_agent_remove_stream the harness snapshots the real agent's "
    "streams, discovery list, refresh list (with `disposing`), triggered queue, check lists, pruning_streams, keepalive source, "
    "discovery timer source, discovery_unsched_items and next_stream_id (private headers); the Lean driver applies the model's addStream/removeStream to the pre-snapshot and "
    "must reproduce the post-snapshot exactly, and evaluates the executable invariant `wfb` (proved equivalent to WF) on EVERY "
    "snapshot, including those taken after arbitrary main-loop time. The other model transitions (gather, alloc, forget, freed, "
    "...) are not compared step by step: their effect is only checked through the invariant on the snapshots",
    "a disposing refresh is read as `forgetting` while its stream is live and as `removing` otherwise (the C struct does not say "
    "which call disposed it): WF.prun is therefore checked in the weaker form `a parked stream still has SOME disposing refresh`",
    "memory safety, use-after-free, assertion failures and leaks of the C implementation CANNOT be expressed by the model: they "
    "are observed only, by executing generated API programs (<= 60 calls incl. stale ids, with main-loop iterations and peer "
    "traffic interleaved) on real agents under ASan + UBSan + LSan, comparing open descriptors before/after, and counting "
    "main-loop dispatches per idle virtual second (no-spin)",
]
PTCP_RST = bytes(13) + bytes([4]) + bytes(10)      # pseudo-TCP header: conversation 0, flags = RST
IDLE_RATE_LIMIT = 60      # dispatches per idle virtual second tolerated (Ta = 20 ms pacing gives 50/s while checks run)


def program(rng, tier):
    """returns list of op lines (an API program)"""
    ops = []
    alive = {"A": True, "B": True}
    sids = {"A": [], "B": []}
    removed = {"A": set(), "B": set()}
    ncomp = {}
    use_turn = rng.random() < 0.3
    consent = rng.random() < 0.3
    reliable = rng.random() < 0.2
    opts = (32 if consent else 0) | (2 if reliable else 0) | rng.choice([0, 1])
    ops += [f"net seed {rng.randrange(10 ** 6)}", "net trace 0", f"net latency 1 {rng.choice([1, 20, 150])}",
            f"net loss {rng.choice([0, 0, 20])} 2"]
    use_stun = rng.random() < 0.25
    if use_stun:
        ops.append(f"server 127.0.0.50:3478 stun {rng.choice(['s', 's', 'd', 'l'])}")
    if use_turn:
        ops.append(f"server 127.0.0.60:3478 turn {rng.choice(['a', 'a', 'a', 'ua', 'd', 'ue', 'n', 'aad', 'aad', 'uaad', 'aae', 'aaad'])} user pass")   # ..d: the server goes silent after allocating
    # a sixth of the programs: ICE-TCP candidates as well, and a foreign party that opens raw TCP connections to an agent's
    # tcp-passive candidate, writes whole / partial RFC 4571 frames and goes away
    use_tcp = rng.random() < 0.17
    tcpx = " icetcp=1" if use_tcp else ""
    if use_stun:
        tcpx += " stunsrv=127.0.0.50:3478"       # the server name is resolved asynchronously after gather
    ops.append(f"new A ctrl={rng.randint(0, 1)} compat=0 opts={opts}{tcpx} addrs=127.0.0.1" + (",127.0.0.2" if rng.random() < 0.3 else ""))
    ops.append(f"new B ctrl={rng.randint(0, 1)} compat=0 opts={opts}{tcpx} addrs=127.0.1.1")
    ops.append("fds")
    if rng.random() < 0.75:
        # usual prologue so that the fuzzed calls hit a session with checks / refreshes / transfers in flight
        k = rng.randint(1, 2)
        kk = {"A": k, "B": k}
        if rng.random() < 0.3:
            kk[rng.choice("AB")] = 3 - k          # the two sides disagree on the number of components (RTP+RTCP against RTP only)
        for ag in "AB":
            ops.append(f"stream {ag} {kk[ag]}"); sids[ag].append(1); ncomp[(ag, 1)] = kk[ag]
            ops.append(f"attach {ag} 1")
            if use_turn and rng.random() < 0.7:
                ops.append(f"relay {ag} 1 1 127.0.0.60:3478 user pass 0")
            ops.append(f"gather {ag} 1")
        ops.append(f"run {rng.choice([0, 30, 200])}")
        if rng.random() < 0.3:
            x_ = rng.choice("AB")
            ops.append(f"sdp {x_} {'B' if x_ == 'A' else 'A'}")      # whole-session SDP handed over as text
        pro = ["creds A 1 B 1", "creds B 1 A 1"] + [f"cands {a} 1 {c} {b} 1" for a, b in (("A", "B"), ("B", "A")) for c in range(1, k + 1)]
        cut = rng.randint(2, len(pro))          # sometimes the fuzzing starts in the middle of the signalling
        ops += pro[:cut]
        ops.append(f"run {rng.choice([0, 10, 40, 300, 3000])}")
        ops += pro[cut:]
    n = rng.randint(10, 60)
    for _ in range(n):
        live = [a for a in "AB" if alive[a]]
        if not live:
            break
        ag = rng.choice(live)
        other = "B" if ag == "A" else "A"
        sid = rng.choice(sids[ag] + [rng.choice([0, 7, 99])]) if (sids[ag] and rng.random() < 0.9) else rng.choice([1, 7])
        cid = rng.choice([1, 1, 2, 9])
        kind = rng.choice(["stream", "stream", "gather", "creds", "cands", "run", "run", "send", "restart", "restartstream",
                           "rmstream", "consentlost", "relay", "sdp", "attach", "detach", "setrole", "selpair", "getsel",
                           "forgetrelays", "q", "localcands", "remotecands", "res", "closeasync", "unref"] +
                          (["rawtcp"] * 5 if use_tcp else []) + (["peerdgram"] * 6 + ["attach2"] * 3 if reliable else ["attach2"]))
        if kind == "peerdgram":
            # reliable agents: what the selected peer address may send — a pseudo-TCP reset (the connection dies, the component
            # fails, its sockets are detached), stray pseudo-TCP segments, garbage — also after the connection has died and the
            # application has moved its callbacks to another context
            pk = rng.choice([PTCP_RST, PTCP_RST, PTCP_RST[:12] + bytes([0, 0]) + PTCP_RST[14:] + b"late data", bytes(rng.randrange(256) for _ in range(30))])
            ops.append(f"injectsel {ag} {sid} 1 {pk.hex()}")
            ops.append(f"run {rng.choice([5, 50, 400])}")
            continue
        if kind == "attach2":
            ops.append(f"attach2 {ag} {sid}")
            ops.append(f"run {rng.choice([0, 20, 300])}")
            continue
        if kind == "rawtcp":
            name = rng.choice(["x", "y"])
            what = rng.choice(["conn", "conn", "frame", "partial", "partial", "close", "close"])
            if what == "conn":
                ops.append(f"tcpconn {name} @{ag}")
            elif what == "frame":
                pl = bytes(rng.randrange(256) for _ in range(rng.choice([1, 20, 300])))
                ops.append(f"tcpsend {name} {(len(pl).to_bytes(2, 'big') + pl).hex()}")
            elif what == "partial":
                ln = rng.choice([100, 1000, 65535])
                ops.append(f"tcpsend {name} {rng.choice([ln.to_bytes(2, 'big')[:1], ln.to_bytes(2, 'big'), ln.to_bytes(2, 'big') + bytes(10)]).hex()}")
            else:
                ops.append(f"tcpclose {name}")
            ops.append("settle 60")
            ops.append(f"run {rng.choice([0, 20, 300])}")
            continue
        if kind == "stream":
            k = rng.randint(1, 2)
            ops.append(f"stream {ag} {k}")
            sids[ag].append(len(sids[ag]) + 1)     # ids are 1,2,3.. per agent
            ncomp[(ag, sids[ag][-1])] = k
            if rng.random() < 0.8:
                ops.append(f"attach {ag} {sids[ag][-1]}")
        elif kind in ("gather", "restartstream", "rmstream"):
            if kind == "rmstream":
                lv = [x for x in sids[ag] if x not in removed[ag]]
                if lv and rng.random() < 0.8:
                    sid = rng.choice(lv)
                removed[ag].add(sid)
            # (a third of the gather calls return to the program without a main-loop iteration: asynchronous work — the lookup
            #  of the STUN server name — is still pending when the next call is made)
            ops.append(f"{kind} {ag} {sid}" + (" noiter" if kind == "gather" and rng.random() < 0.33 else ""))
            if kind == "rmstream":
                ops.append(f"res {ag}")
        elif kind == "creds":
            if alive[other]:
                ops.append(f"creds {ag} {sid} {other} {rng.choice(sids[other] + [1])}")
        elif kind == "cands":
            if alive[other]:
                ops.append(f"cands {ag} {sid} {cid} {other} {rng.choice(sids[other] + [1])}")
        elif kind == "run":
            ops.append(f"run {rng.choice([0, 1, 20, 100, 1000, 6000, 31000])}")
        elif kind == "send":
            ops.append(f"send {ag} {sid} {cid} {'ab' * rng.choice([1, 10, 1200])}")
        elif kind == "restart":
            ops.append(f"restart {ag}")
        elif kind == "consentlost":
            ops.append(f"consentlost {ag} {sid} {cid}")
        elif kind == "relay" and use_turn:
            ops.append(f"relay {ag} {sid} {cid} 127.0.0.60:3478 user pass 0")
        elif kind == "sdp":
            if alive[other]:
                ops.append(f"sdp {ag} {other}")
        elif kind in ("attach",):
            ops.append(f"attach {ag} {sid}") if sid in sids[ag] else None
        elif kind in ("detach", "getsel", "forgetrelays", "localcands", "remotecands"):
            ops.append(f"{kind} {ag} {sid} {cid}") if not (kind == "detach" and sid not in sids[ag]) else None
        elif kind == "q":
            ops.append(f"q {ag} {sid} {cid}")
        elif kind == "setrole":
            ops.append(f"setrole {ag} {rng.randint(0, 1)}")
        elif kind == "selpair":
            ops.append(f"selpair {ag} {sid} {cid} {rng.choice(['1', '2', 'zz'])} {rng.choice(['1', 'remote1', 'zz'])}")
        elif kind == "res":
            ops.append(f"res {ag}")
        elif kind == "closeasync" and rng.random() < 0.2:
            ops.append(f"closeasync {ag}")
            ops.append("run 200")
            ops.append(f"unref {ag}")
            alive[ag] = False
        elif kind == "unref" and rng.random() < 0.15:
            ops.append(f"unref {ag}")
            alive[ag] = False
    # quiescent idle period (no calls, no peer traffic expected to change anything), then tear down
    ops.append("run 3000")
    ops.append("stats")
    ops.append("run 20000")
    ops.append("stats")
    for ag in "AB":
        if alive[ag]:
            ops.append(f"unref {ag}")
    if use_tcp:
        ops += ["tcpclose x", "tcpclose y", "settle 100"]      # the foreign party's own descriptors are not the library's
    ops += ["drain", "run 4000", "drain", "fds"]       # > the 2 s a deallocation nobody answers takes to time out (rc=3, rto=500)
    return [o for o in ops if o]


SNAP_DROP = re.compile(r" conncheck \d+")


def canon(snap):
    return SNAP_DROP.sub("", snap).strip()


def execute(args):
    exe, seed, tier = args
    import random
    if isinstance(seed, tuple):
        prog = seed[1]
    else:
        rng = random.Random(f"C12/{seed}")
        prog = program(rng, tier)
    env = dict(vlib.ENV, ASAN_OPTIONS="detect_leaks=1:abort_on_error=0:allocator_may_return_null=1")
    try:
        r = subprocess.run([exe], input="\n".join(prog) + "\n", capture_output=True, text=True, env=env, timeout=120)
    except subprocess.TimeoutExpired as e:
        return dict(seed=seed, bad=[("hang", "the program did not finish within 120 s of real time (busy loop in the library or the harness)")],
                    script=prog, nops=len(prog), rate=None, lc=[], kinds=[l.split()[0] for l in prog])
    bad = []
    out = r.stdout.splitlines()
    statuses = [l for l in out if l.startswith("ok") or l.startswith("err")]
    if r.returncode != 0:
        if "LeakSanitizer" in r.stderr:
            m = re.search(r"SUMMARY: AddressSanitizer: (\d+) byte\(s\) leaked in (\d+)", r.stderr)
            frames = re.findall(r"#\d+ 0x[0-9a-f]+ in (\S+) ", r.stderr)
            bad.append(("leak", f"{m.group(0) if m else 'leak'}; allocation sites: {[f for f in frames if not f.startswith('g_') and f != 'malloc'][:6]}"))
        else:
            bad.append(("crash", f"exit {r.returncode}: " + r.stderr[-1500:]))
    if any("spin-detected" in l for l in out):
        bad.append(("spin", "main loop dispatched more than 20000 times without the clock advancing"))
    # lifecycle tie: collect (driver line, expected output or None, description)
    lc = []
    pend = {}
    for l in out:
        w = l.split()
        if l.startswith("ev lc add ") and len(w) > 5:
            snap = canon(" ".join(w[5:]))
            if snap == "dead":
                continue
            if w[4] == "pre":
                pend[("add", w[3])] = snap
            elif ("add", w[3]) in pend:
                pre = pend.pop(("add", w[3]))
                m = re.search(r"next (\d+)", pre)
                lc.append((f"lc add {pre}", f"id {m.group(1)} {snap}", f"add_stream on {w[3]}"))
                lc.append((f"lc wf {snap}", "wf 1", f"invariant after add_stream on {w[3]}"))
        elif l.startswith("ev lc rm ") and len(w) > 6:
            snap = canon(" ".join(w[6:]))
            if snap == "dead":
                continue
            if w[5] == "pre":
                pend[("rm", w[3])] = snap
            elif ("rm", w[3]) in pend:
                pre = pend.pop(("rm", w[3]))
                lc.append((f"lc rm {w[4]} {pre}", snap, f"remove_stream({w[4]}) on {w[3]}"))
                lc.append((f"lc wf {snap}", "wf 1", f"invariant after remove_stream({w[4]}) on {w[3]}"))
                lc.append((f"lc mentions {w[4]} {snap}", "mentions 0", f"no live container mentions {w[4]} after remove_stream on {w[3]}"))
        elif l.startswith("ok streams"):
            lc.append((f"lc wf {canon(l[3:])}", "wf 1", "invariant on a snapshot after main-loop time"))
    # descriptors
    fds = [int(l.split()[2]) for l in statuses if l.startswith("ok fds")]
    if len(fds) == 2 and r.returncode == 0 and fds[1] > fds[0]:
        bad.append(("fd-leak", f"{fds[1] - fds[0]} descriptors still open after the last unref and a drained context"))
    # idle dispatch rate over the 20 s quiescent window
    st = [l for l in statuses if l.startswith("ok t=") and "dispatches=" in l]
    rate = None
    if len(st) >= 2:
        d0 = int(re.search(r"dispatches=(\d+)", st[-2]).group(1)); d1 = int(re.search(r"dispatches=(\d+)", st[-1]).group(1))
        s0 = int(re.search(r"sent=(\d+)", st[-2]).group(1)); s1 = int(re.search(r"sent=(\d+)", st[-1]).group(1))
        rate = (d1 - d0) / 20.0
        # packets sent during the window are legitimate work (keepalives, retransmissions): allow 12 dispatches each
        if rate > IDLE_RATE_LIMIT + 12 * (s1 - s0) / 20.0:
            bad.append(("busy-idle", f"{d1 - d0} main-loop dispatches in 20 idle virtual seconds ({rate:.0f}/s) with {s1 - s0} packets sent"))
    return dict(seed=seed, bad=bad, script=prog, nops=len(prog), rate=rate, lc=lc,
                kinds=[l.split()[0] for l in prog])


def corpus_programs():
    d = os.path.join(vlib.ROOT, "corpus", "C12")
    out = []
    if os.path.isdir(d):
        for f in sorted(os.listdir(d)):
            if f.endswith(".scn"):
                out.append((f, [l.strip() for l in open(os.path.join(d, f)) if l.strip() and not l.startswith("#")]))
    return out


def run(tier, seed):
    chk = vlib.Check("C12", tier, seed)
    chk.cov["trusted_base"] = TRUSTED
    st = vlib.std_pipeline(chk, MODULE, THEOREMS)
    diverged, ofail = [], []
    if st["libs"]:
        ok, exe, log = sc.build_sim()
        if not ok:
            chk.note("harness build failed: " + log[-1500:]); st["libs"] = False; st["log"] = log
        else:
            n = 300 if tier == "quick" else 6000
            corp = corpus_programs()
            jobs = [(exe, ("corpus", scr), tier) for _, scr in corp] + [(exe, seed * 100000 + i, tier) for i in range(n)]
            res = simlib.run_parallel(execute, jobs)
            kinds, fk = {}, {}
            for r in res:
                for k in r["kinds"]:
                    kinds[k] = kinds.get(k, 0) + 1
                for kind, what in r["bad"]:
                    fk[kind] = fk.get(kind, 0) + 1
                    ofail.append({"why": f"{kind}: {what}", "session": r["script"]})
            # lifecycle correspondence + invariant, one model process for everything
            lines, owner = [], []
            for ri, r in enumerate(res):
                for (line, exp, what) in r["lc"]:
                    lines.append(line); owner.append((ri, exp, what))
            n_lc = {"add": 0, "rm": 0, "wf": 0, "mentions": 0}
            if lines and st.get("proof"):
                mo, mrc, merr = vlib.run_lines(vlib.model_exe(), lines)
                if len(mo) != len(lines):
                    diverged.append({"op": "lc", "impl": f"{len(lines)} lines", "model": f"{len(mo)} lines rc={mrc} {merr[-300:]}"})
                else:
                    seen = set()
                    for (ri, exp, what), line, got in zip(owner, lines, mo):
                        k = line.split()[1]
                        n_lc[k] = n_lc.get(k, 0) + 1
                        if k == "rm":
                            if re.search(r"pruning \d", exp):
                                n_lc["rm_parked"] = n_lc.get("rm_parked", 0) + 1
                            if re.search(r"refreshes [^a-z]*\d+!", line):
                                n_lc["rm_with_disposing_refresh"] = n_lc.get("rm_with_disposing_refresh", 0) + 1
                            if line.split()[2] not in line.split("discovery")[0].split()[4:]:
                                n_lc["rm_stale_id"] = n_lc.get("rm_stale_id", 0) + 1
                        if got == exp or ri in seen:
                            continue
                        seen.add(ri)
                        if k in ("wf", "mentions"):
                            # the implementation's own state violates the invariant the theorems establish
                            fk["dangling"] = fk.get("dangling", 0) + 1
                            ofail.append({"why": f"dangling: {what}: the real agent's containers violate the lifecycle invariant "
                                                 f"(a resource whose owning stream object no longer exists, a stranded parked stream, "
                                                 f"or a keepalive timer without streams): `{line[3:]}`", "session": res[ri]["script"]})
                        else:
                            diverged.append({"op": line, "impl": exp, "model": got, "what": what, "session": res[ri]["script"]})
            rates = [r["rate"] for r in res if r["rate"] is not None]
            chk.cov["evaluations"] = len(res)
            chk.cov["distinct_nontrivial"] = len({tuple(r["script"]) for r in res if r["nops"] > 25})
            chk.cov["traces_validated_against_impl"] = n_lc["add"] + n_lc["rm"]
            chk.cov["rule"] = ("one evaluation = one generated API program (10-60 calls over add/remove stream, gather, set credentials/"
                               "candidates, SDP generate+parse, relay info, restart, send, attach/detach, selected pair, consent lost, "
                               "forget relays, close_async, unref; valid and stale ids; main-loop time and peer traffic interleaved; "
                               "optional TURN server, consent freshness, reliable mode) run on real agents under ASan+UBSan+LSan, then "
                               "20 idle virtual seconds, unref, drain; committed witnesses (corpus/C12) run first; non-trivial = distinct "
                               "programs longer than 25 ops; traces validated = add_stream/remove_stream steps on which model and "
                               "implementation post-states were compared")
            chk.cov["samples"] = [res[len(corp)]["script"]] if len(res) > len(corp) else []
            chk.cov["generator_distribution"] = {"op_kinds": kinds, "failure_kinds": fk,
                                                 "idle_dispatch_rate_max_per_s": max(rates) if rates else None,
                                                 "lifecycle_steps_compared": {"add_stream": n_lc["add"], "remove_stream": n_lc["rm"],
                                                                              "remove_stream_parked_on_pruning": n_lc.get("rm_parked", 0),
                                                                              "remove_stream_with_disposing_refresh": n_lc.get("rm_with_disposing_refresh", 0),
                                                                              "remove_stream_stale_id": n_lc.get("rm_stale_id", 0)},
                                                 "invariant_evaluations_on_real_snapshots": n_lc["wf"],
                                                 "corpus_programs": len(corp)}
    return conclude(chk, st, diverged, ofail, "sim_drv:C12 API programs under ASan/LSan + lifecycle snapshots vs Nice.Lifecycle")


def replay(path):
    r = json.load(open(path))
    s = r.get("session")
    if not s:
        print(json.dumps(r, indent=1)); return 0
    vlib.ensure_libs()
    ok, exe, log = sc.build_sim()
    res = execute((exe, ("replay", s), "quick"))
    print(json.dumps(res["bad"], indent=1))
    rc = 1 if res["bad"] else 0
    if res["lc"]:
        mo, mrc, merr = vlib.run_lines(vlib.model_exe(), [l for l, _, _ in res["lc"]])
        for (line, exp, what), got in zip(res["lc"], mo):
            if got != exp:
                print("MISMATCH", what, "\n  op   ", line, "\n  impl ", exp, "\n  model", got); rc = 1
    print("exit", rc)
    return rc
