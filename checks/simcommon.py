"""Shared pieces of the simulation-based checks (real agents in harness/sim_drv)."""
import json, os, random, re
from lib import vlib, simlib

TA = 20  # pacing interval used by the scenarios (ms)


def build_sim():
    return vlib.build_harness("sim_drv", multidef=True)


def base_config(rng, tier="quick"):
    return dict(ctrlA=rng.randint(0, 1), ctrlB=rng.randint(0, 1), regA=rng.randint(0, 1), regB=rng.randint(0, 1),
                naA=rng.randint(1, 3), naB=rng.randint(1, 3), ncomp=rng.randint(1, 2),
                loss=rng.choice([0, 0, 10, 30, 50]), lat=rng.choice([1, 5, 50, 200]), dup=rng.choice([0, 0, 10]),
                rc=3, rto=500, anyorder=rng.random() < 0.1, consent=0, extra_opts=0)


def start_session(exe, seed, cfg):
    """create the two agents, gather; returns Sim"""
    s = simlib.Sim(exe)
    s.cfg = cfg
    s.op(f"net seed {seed}")
    if cfg.get("tickcost0"):
        # dispatching costs no virtual time from the very first timer on: every deadline in the session is then a whole
        # millisecond and no timer is ever re-armed with a sub-millisecond remainder (paired runs keep identical timing)
        s.op("net tickcost 0")
    s.op(f"net latency 1 {cfg['lat']}")
    s.op(f"net loss {cfg['loss']} {cfg['rc'] - 1}")
    s.op(f"net dup {cfg['dup']}")
    optsA = cfg["regA"] | (32 if cfg.get("consent") else 0) | cfg.get("extra_opts", 0)
    optsB = cfg["regB"] | (32 if cfg.get("consent") else 0) | cfg.get("extra_opts", 0)
    if cfg.get("nat"):
        # agents named in cfg["nat"] sit behind port-preserving full-cone NATs (one public address per local address):
        # the peer only ever sees 203.0.113.x / 198.51.100.x, local and remote peer-reflexive candidates appear
        for ag in cfg["nat"]:
            for i in range(cfg["naA" if ag == "A" else "naB"]):
                real = f"127.0.0.{i + 1}" if ag == "A" else f"127.0.1.{i + 1}"
                pub = f"203.0.113.{i + 1}" if ag == "A" else f"198.51.100.{i + 1}"
                s.op(f"net nat {real} {pub}")
    stun = ""
    if cfg.get("stunsrv"):
        # a scripted STUN server (behaviour script cfg["stunsrv"]) both agents gather against
        s.op(f"server 127.0.0.50:3478 stun {cfg['stunsrv']}")
        stun = " stunsrv=127.0.0.50:3478"
    s.op(f"new A ctrl={cfg['ctrlA']} compat=0 opts={optsA} rc={cfg['rc']} rto={cfg['rto']} "
         f"keepalive={cfg.get('keepalive', 0)} addrs=" + ",".join(f"127.0.0.{i + 1}" for i in range(cfg["naA"])) + stun + cfg.get("newargs", ""))
    s.op(f"new B ctrl={cfg['ctrlB']} compat=0 opts={optsB} rc={cfg['rc']} rto={cfg['rto']} "
         f"keepalive={cfg.get('keepalive', 0)} addrs=" + ",".join(f"127.0.1.{i + 1}" for i in range(cfg["naB"])) + stun + cfg.get("newargs", ""))
    s.op(f"stream A {cfg['ncomp']}")
    s.op(f"stream B {cfg['ncomp']}")
    s.op("attach A 1")
    s.op("attach B 1")
    s.op("gather A 1")
    s.op("gather B 1")
    s.op("run 50")
    return s


def signalling_steps(rng, cfg, sid=1):
    """random interleaving of credential / trickled candidate deliveries in both directions"""
    steps = [f"creds A {sid} B {sid}", f"creds B {sid} A {sid}"]
    for c in range(1, cfg["ncomp"] + 1):
        for i in range(cfg["naA"]):
            steps.append(f"cands A {sid} {c} B {sid} {i}")
        for i in range(cfg["naB"]):
            steps.append(f"cands B {sid} {c} A {sid} {i}")
    rng.shuffle(steps)
    if not cfg.get("anyorder"):
        for a, b in (("A", "B"), ("B", "A")):
            ci = steps.index(f"creds {a} {sid} {b} {sid}")
            first = min(i for i, x in enumerate(steps) if x.startswith(f"cands {a} "))
            if ci > first:
                steps.insert(first, steps.pop(ci))
    return steps


def deliver_signalling(s, rng, steps):
    """runs the steps with random virtual-time gaps; returns per-receiver (first cand time, cred time)"""
    t = 0
    first_cand = {}
    cred_at = {}
    for st in steps:
        s.op(st)
        w = st.split()
        if w[0] == "cands":
            first_cand.setdefault(w[4], t)
        else:
            cred_at[w[3]] = t
        if rng.random() < 0.6:
            d = rng.choice([0, 1, 20, 100, 300, 1200])
            s.op(f"run {d}")
            t += d
    s.sig_first_cand, s.sig_cred_at = first_cand, cred_at
    return first_cand, cred_at


def cands_before_creds(s):
    """known-finding class K1: some agent got remote candidates >= one pacing tick before the
    remote credentials"""
    for ag in ("A", "B"):
        fc, cr = s.sig_first_cand.get(ag), s.sig_cred_at.get(ag)
        if fc is not None and cr is not None and cr - fc >= TA:
            return ag
    return None


def final_queries(s, ncomp, sid=1):
    res = {}
    for c in range(1, ncomp + 1):
        qa = simlib.parse_q(s.op(f"q A {sid} {c}")[1])
        qb = simlib.parse_q(s.op(f"q B {sid} {c}")[1])
        res[c] = (qa, qb)
    return res


def saw_prflx(s, agent, comp):
    for e in s.events():
        if f" {agent} new-remote-candidate " in e and "type=2" in e and f"comp={comp} " in e:
            return True
    return False


def last_request_role(s, agent):
    role = None
    for e in s.events():
        if f" tx {agent} " in e and "class=0 method=1" in e:
            m = re.search(r"role=(-?\d+)", e)
            if m and m.group(1) != "-1":
                role = int(m.group(1))
    return role


K1_TEXT = ("C01/K1 remote candidates delivered at least one pacing interval before the remote credentials: the checks are "
           "cancelled for lack of credentials and never retried, the component does not reach READY "
           "(agent/conncheck.c conn_check_send 'no credentials found')")
K2_TEXT = ("C01/K2 aggressive nomination: an agent first learnt a peer candidate as peer-reflexive (a check arrived before the "
           "candidate was signalled), ranks / prunes that pair by the peer-reflexive priority and ends on a different nominated "
           "pair than its peer: both READY but selected pairs are not mirrored at quiescence "
           "(agent/conncheck.c priv_mark_pair_nominated / priv_prune_pending_checks / conn_check_update_selected_pair)")


def run_corpus(exe, prop, ofail):
    """replay committed witness scenarios (corpus/<prop>/*.scn): a crash / sanitizer abort is a violation"""
    d = os.path.join(vlib.ROOT, "corpus", prop)
    n = 0
    if os.path.isdir(d):
        for f in sorted(os.listdir(d)):
            if not f.endswith(".scn"):
                continue
            script = [l.strip() for l in open(os.path.join(d, f)) if l.strip() and not l.startswith("#")]
            out, err, rc = simlib.replay_script(exe, script)
            n += 1
            if rc != 0:
                ofail.append({"why": f"witness corpus/{prop}/{f} crashes the agent (exit {rc})", "session": script,
                              "stderr": err[-2000:]})
    return n
