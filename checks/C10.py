"""C10 — Hostile or foreign segments cannot corrupt, crash or overrun a pseudo-TCP socket.

This module also holds the pseudo-TCP machinery shared with checks/C08.py and checks/C09.py:
the interactive harness wrapper, the reply parser, the adaptive two-socket schedule generator, the
hostile packet generator and the stream / window / completion oracles."""
import json, os, struct, subprocess, time
from concurrent.futures import ThreadPoolExecutor
from lib import vlib
from checks.common import conclude

MODULE = "Nice.Props.C10"
THEOREMS = [f"Nice.Props.C10.{t}" for t in (
    "C10_wrong_conv_noop",
    "C10_short_packet_noop",
    "C10_long_packet_noop",
    "C10_parse_options_no_fault", "C10_only_window_scale_option_sets_scale",
    "C10_shift_no_fault",
    "C10_swnd_scale_le_14",
    "C10_fifo_ok_preserved",
    "C10_rbuf_bounded",
    "C10_inv_preserved_partial",
    "C10_respects_window_counterexample",
    "C10_respects_window_partial")] + [f"Nice.Props.C10Kernels.{t}" for t in (
    "C10_model_has_sent_fin_is_code", "C10_model_has_received_fin_is_code", "C10_model_has_received_fin_ack_is_code",
    "C10_fin_ack_implies_both_fins", "C10_open_states_have_no_fin", "C10_model_write_remaining_is_code",
    "C10_model_buffered_is_code", "C10_buffered_plus_room_is_capacity",
    "C10_is_closed_remotely_is_code", "C10_available_send_space_is_code", "C10_no_send_space_after_fin")]
TRUSTED = [
    "Lean 4 kernel; axioms allowed: propext, Classical.choice, Quot.sound (audited by #print axioms on every run)",
    "hand-written model Nice/Model/PTcp.lean of agent/pseudotcp.c, tied by the ptcp_drv differential stream: every "
    "emitted packet byte for byte, every callback, return value, errno and the whole private state after every operation",
    "constants, PACKET_MAXIMUMS, the set_state whitelist and time_diff/bound/LARGER.. kernels are regenerated from the source",
    "pseudo_tcp_state_has_sent_fin / _has_received_fin / _has_received_fin_ack and pseudo_tcp_fifo_get_buffered / "
    "_get_write_remaining are REGENERATED from agent/pseudotcp.c on every run (tools/extract.py KERNELS / FIELD_KERNELS) and the "
    "model's hasSentFin / hasReceivedFin / hasReceivedFinAck / Fifo.getBuffered / Fifo.getWriteRemaining are PROVED equal to them "
    "(Props/C10Kernels), so for these five functions the model-code tie is a theorem over a translation, not a sample",
    "harness zero-fills the fifo rings (g_slice_alloc is uninitialised memory in C); C-level memory safety / UB is "
    "observed under ASan/UBSan on the generated sessions, not proved",
]
M32 = 1 << 32
STATES = ["LISTEN", "SYN-SENT", "SYN-RECEIVED", "ESTABLISHED", "CLOSED", "FIN-WAIT-1", "FIN-WAIT-2", "CLOSING",
          "TIME-WAIT", "CLOSE-WAIT", "LAST-ACK"]
MAX_RTO = 60000


# --------------------------------------------------------------------------- harness plumbing
class Live:
    """the real-code harness driven interactively (one op in, one reply line out)"""

    def __init__(self, exe):
        for attempt in range(30):
            try:
                self.p = subprocess.Popen([exe], stdin=subprocess.PIPE, stdout=subprocess.PIPE, stderr=subprocess.PIPE,
                                          text=True, bufsize=1, env=vlib.ENV)
                break
            except (PermissionError, OSError):
                # the harness binary is being relinked by a concurrent check run
                if attempt == 29:
                    raise
                time.sleep(1)
        self.dead = False
        self.stderr = ""

    def op(self, line):
        if self.dead:
            return None
        try:
            self.p.stdin.write(line + "\n")
            self.p.stdin.flush()
            r = self.p.stdout.readline()
        except (BrokenPipeError, OSError):
            r = ""
        if not r or r.startswith("Bail out!"):
            # (g_assert prints `Bail out!` on stdout before aborting)
            self.dead = True
            try:
                self.stderr = self.p.stderr.read()[-3000:]
            except Exception:
                pass
            return None
        return r.rstrip("\n")

    def close(self):
        try:
            self.p.stdin.close()
        except Exception:
            pass
        try:
            self.p.wait(timeout=5)
        except Exception:
            self.p.kill()
        for f in (self.p.stdout, self.p.stderr):
            try:
                f.close()
            except Exception:
                pass


def parse_reply(r):
    """reply line -> dict (ret:int, x:str, err:str, ev:[str], st:str, plus the private fields as str/int)"""
    if r is None or not r.startswith("ret="):
        return None
    d = {}
    i = r.index(" ev=[")
    head = r[:i].split()
    for kv in head:
        k, v = kv.split("=", 1)
        d[k] = v
    j = r.index("] st=", i)
    evs = r[i + 5:j]
    d["ev"] = evs.split() if evs else []
    rest = r[j + 2:]
    k = rest.index(" sl=[")
    for kv in rest[:k].split():
        a, b = kv.split("=", 1)
        d[a] = b
    tail = rest[k + 5:]
    sl, rl = tail.split("] rl=[") if "] rl=[" in tail else (tail.split("]")[0], "")
    d["sl"] = sl.split() if sl.strip() else []
    d["rl"] = rl.rstrip("]").split() if rl.rstrip("]").strip() else []
    d["ret"] = int(d["ret"])
    for f in ("una", "nxt", "rnxt", "rwnd", "swnd", "cwnd", "ssth", "rto", "base", "tack", "mss", "rbl", "sbl",
              "sws", "rws", "fa", "sd", "sr", "dup", "lsnd", "lrcv"):
        d[f] = int(d[f])
    d["rb"] = int(d["rb"].split("@")[0])
    d["sb"] = int(d["sb"].split("@")[0])
    d["priv"] = rest  # whole private state incl. st=
    return d


def pkt_fields(hexs):
    b = bytes.fromhex(hexs) if hexs != "-" else b""
    if len(b) < 24:
        return None
    conv, seq, ack = struct.unpack(">III", b[:12])
    flags = b[13]
    wnd = struct.unpack(">H", b[14:16])[0]
    return {"conv": conv, "seq": seq, "ack": ack, "flags": flags, "wnd": wnd, "len": len(b) - 24, "data": b[24:]}


def pat(n, k):
    return bytes((k + 131 * j + 7 * (j // 256)) % 256 for j in range(n))


def mk_pkt(conv, seq, ack, flags, wnd, tsval, tsecr, payload=b"", ctl=0):
    return struct.pack(">IIIBBHII", conv % M32, seq % M32, ack % M32, ctl & 255, flags & 255, wnd & 65535,
                       tsval % M32, tsecr % M32) + payload


# --------------------------------------------------------------------------- schedule generation
def logu(rng, lo, hi):
    import math
    return int(round(math.exp(rng.uniform(math.log(lo), math.log(hi)))))


class Sess:
    """one adaptive session on the real harness: records ops and replies, keeps per-socket bookkeeping"""

    def __init__(self, live, rng):
        self.live, self.rng = live, rng
        self.ops, self.outs = [], []
        self.now = 0
        self.last = {"l": None, "r": None}          # last parsed reply per socket
        self.net = {"l": [], "r": []}               # packets in flight TO that socket (hex)
        self.hist = {"l": [], "r": []}              # every packet ever emitted TO that socket
        self.sent = {"l": bytearray(), "r": bytearray()}   # bytes accepted by send() on that socket
        self.read = {"l": bytearray(), "r": bytearray()}   # bytes returned by recv() on that socket
        self.cfg = {}
        self.errcb = {"l": [], "r": []}             # Closed(err) callbacks seen
        self.cbs = {"l": [], "r": []}
        self.events = []                            # (op index, kind, ...) for the oracles
        self.closed_gracefully = {"l": False, "r": False}  # shutdown wr/rdwr or close(0) called
        self.sent_at_close = {"l": None, "r": None}
        self.local_rd = {"l": False, "r": False}
        self.silent_close = {"l": False, "r": False}
        self.kinds = {}
        self.mss_min = 1 << 32

    def raw(self, line, kind=None):
        r = self.live.op(line)
        self.ops.append(line)
        self.outs.append(r)
        k = kind or line.split()[1]
        self.kinds[k] = self.kinds.get(k, 0) + 1
        return r

    def sockop(self, s, line, kind=None):
        """op on socket s; returns parsed reply (None if the harness died or bad-op)"""
        r = self.raw(line, kind)
        d = parse_reply(r)
        if d is None:
            return None
        other = "r" if s == "l" else "l"
        for e in d["ev"]:
            if e.startswith("p:"):
                self.net[other].append(e[2:])
                self.hist[other].append(e[2:])
            else:
                self.cbs[s].append(e)
                if e.startswith("closed:"):
                    self.errcb[s].append((len(self.ops) - 1, e[7:]))
        d["_prev"] = self.last[s]
        self.last[s] = d
        self.mss_min = min(self.mss_min, d["mss"])
        return d

    def t(self, ms):
        self.now = ms % M32
        self.raw(f"ptcp t {self.now}", "t")

    def new(self, s, conv, finack, rcvbuf, sndbuf, nodelay, ackdelay):
        self.cfg[s] = dict(conv=conv, finack=finack, rcvbuf=rcvbuf, sndbuf=sndbuf, nodelay=nodelay, ackdelay=ackdelay)
        return self.sockop(s, f"ptcp new {s} {conv} finack={finack} rcvbuf={rcvbuf} sndbuf={sndbuf} "
                              f"nodelay={nodelay} ackdelay={ackdelay}")

    def send(self, s, n, k):
        d = self.sockop(s, f"ptcp sendp {s} {n} {k}", "send")
        if d and d["ret"] > 0:
            self.sent[s] += pat(n, k)[:d["ret"]]
        return d

    def recv(self, s, n):
        d = self.sockop(s, f"ptcp recv {s} {n}", "recv")
        if d and d["ret"] > 0:
            self.read[s] += bytes.fromhex(d["x"])
        if d:
            self.events.append((len(self.ops) - 1, "recv", s, n, d["ret"]))
        return d

    def shut(self, s, how):
        st = self.last[s]["st"] if self.last[s] else "LISTEN"
        fa = self.last[s]["fa"] if self.last[s] else 1
        d = self.sockop(s, f"ptcp shut {s} {how}", "shut")
        self._closed(s, how, st, fa)
        return d

    def close(self, s, force):
        st = self.last[s]["st"] if self.last[s] else "LISTEN"
        fa = self.last[s]["fa"] if self.last[s] else 1
        d = self.sockop(s, f"ptcp close {s} {force}", "close")
        if not force or st == "CLOSED":
            self._closed(s, "rdwr", st, fa)
        return d

    def _closed(self, s, how, st, fa):
        if how in ("rd", "rdwr") and fa:
            self.local_rd[s] = True
        if how in ("wr", "rdwr"):
            if not fa or st in ("LISTEN", "SYN-SENT"):
                self.silent_close[s] = True
            if not self.closed_gracefully[s]:
                self.closed_gracefully[s] = True
                self.sent_at_close[s] = len(self.sent[s])

    def deliver(self, s, idx, keep=False):
        """deliver the idx-th in-flight packet to socket s"""
        h = self.net[s][idx]
        if not keep:
            del self.net[s][idx]
        return self.sockop(s, f"ptcp pkt {s} {h}", "deliver")

    def q(self, s):
        d = self.sockop(s, f"ptcp q {s}", "q")
        if d:
            qd = dict(kv.split("=") for kv in d["x"].split(","))
            d["q"] = {k: int(v) for k, v in qd.items()}
            self.events.append((len(self.ops) - 1, "q", s, d["q"]))
        return d

    def next(self, s):
        d = self.sockop(s, f"ptcp next {s}", "next")
        if d:
            self.events.append((len(self.ops) - 1, "next", s, d["ret"], int(d["x"]), self.now, d["st"]))
        return d

    def clock(self, s):
        return self.sockop(s, f"ptcp clock {s}", "clock")

    def alive(self):
        return not self.live.dead


def start_pair(S, rng, origin=None, params=None):
    """create both sockets; returns False if the harness died"""
    p = params or {}
    conv = p.get("conv", rng.choice([0, 1, 7, rng.randrange(M32), M32 - 1]))
    t0 = origin if origin is not None else rng.choice([1, 1000, 123456, rng.randrange(1, 1 << 31)])
    S.t(t0)
    for s in ("l", "r"):
        S.new(s, conv, p.get("finack_" + s, rng.choice([1, 1, 1, 0])),
              p.get("rcvbuf_" + s, logu(rng, 1024, 1 << 20)), p.get("sndbuf_" + s, logu(rng, 1024, 1 << 20)),
              p.get("nodelay_" + s, rng.choice([0, 1])), p.get("ackdelay_" + s, rng.choice([0, 1, 100, rng.randrange(0, 501)])))
    return S.alive()


def chunk(rng):
    r = rng.random()
    if r < 0.35:
        return rng.randrange(1, 200)
    if r < 0.7:
        return rng.randrange(200, 5000)
    return rng.randrange(5000, 70001)


def tick(S, s, rng, exact=True):
    """advance virtual time to socket s's deadline (or an arbitrary earlier/later time) and notify its clock"""
    d = S.next(s)
    if not d:
        return
    if d["ret"] == 1:
        dl = int(d["x"])
        if exact:
            delta = (dl - S.now) % M32                    # the clock is a 32-bit millisecond counter
            if delta == 0 or delta > 70000:
                delta = 1
        else:
            delta = rng.choice([1, 5, 50, 200, 999, 1000, 1001, 4000, 15000])
        S.t(S.now + max(delta, 0))
    else:
        S.t(S.now + rng.choice([1, 100, 1000]))
    S.clock(s)


def net_step(S, rng, lossy=True):
    """one network event in either direction"""
    cands = [s for s in ("l", "r") if S.net[s]]
    if not cands:
        return False
    s = rng.choice(cands)
    n = len(S.net[s])
    r = rng.random()
    if not lossy or r < 0.6:
        S.deliver(s, 0)                                   # in order
    elif r < 0.72:
        del S.net[s][rng.randrange(n)]                    # drop
        S.kinds["drop"] = S.kinds.get("drop", 0) + 1
    elif r < 0.82:
        S.deliver(s, rng.randrange(n), keep=True)         # duplicate
    elif r < 0.94:
        S.deliver(s, rng.randrange(n))                    # reorder / delay
    else:
        h = rng.choice(S.hist[s])                         # arbitrarily delayed old segment
        S.sockop(s, f"ptcp pkt {s} {h}", "deliver-old")
    return True


def establish(S, rng):
    """loss-free handshake: connect l, deliver everything until both sides are ESTABLISHED"""
    S.sockop("l", "ptcp connect l", "connect")
    est = lambda: all(S.last[s] and S.last[s]["st"] == "ESTABLISHED" for s in ("l", "r"))
    for _ in range(24):
        if not S.alive() or (est() and not (S.net["l"] or S.net["r"])):
            break
        if S.net["l"] or S.net["r"]:
            net_step(S, rng, lossy=False)
        else:
            tick(S, "l", rng)       # a delayed ACK is pending
            tick(S, "r", rng)
    return S.alive() and est()


def legit_session(live, rng, steps=120, params=None, hostile=0.0, origin=None, want_close=True, clean_start=None):
    """adaptive two-socket schedule on the real code; returns the Sess"""
    S = Sess(live, rng)
    if not start_pair(S, rng, origin, params):
        return S
    if clean_start if clean_start is not None else rng.random() < 0.5:
        establish(S, rng)
    else:
        S.sockop("l", "ptcp connect l", "connect")
        if rng.random() < 0.1:
            S.sockop("r", "ptcp connect r", "connect")        # simultaneous open
    towrite = {"l": rng.choice([0, 100, 5000, 70000, 200000]), "r": rng.choice([0, 0, 100, 5000, 70000])}
    close_from = rng.randrange(steps // 3, steps + 1) if want_close else steps + 1
    both_closed = 0
    for i in range(steps):
        if not S.alive():
            break
        if all(S.last[x] and S.last[x]["st"] == "CLOSED" for x in ("l", "r")):
            both_closed += 1
            if both_closed > 8:
                break
        r = rng.random()
        s = rng.choice(["l", "r"])
        if hostile and rng.random() < hostile:
            hostile_step(S, s, rng)
        elif r < 0.40:
            net_step(S, rng)
        elif r < 0.55:
            if towrite[s] > 0:
                n = min(chunk(rng), max(towrite[s], 1))
                d = S.send(s, n, rng.randrange(256))
                if d and d["ret"] > 0:
                    towrite[s] -= d["ret"]
            else:
                net_step(S, rng)
        elif r < 0.70:
            S.recv(s, chunk(rng))
        elif r < 0.82:
            tick(S, s, rng, exact=rng.random() < 0.7)
        elif r < 0.86:
            S.q(s)
        elif r < 0.88:
            S.sockop(s, f"ptcp mtu {s} {rng.choice([296, 508, 1006, 1400, 1492, 1500, 9000, 65535, rng.randrange(296, 65536)])}", "mtu")
        elif r < 0.91 and i >= close_from:
            S.shut(s, rng.choice(["rd", "wr", "wr", "rdwr"]))
        elif r < 0.925 and i >= close_from:
            S.close(s, rng.choice([0, 0, 0, 1]))
        elif r < 0.93:
            S.sockop(s, f"ptcp wres {s} {rng.choice(['ok', 'ok', 'ok', 'toolarge', 'fail'])}", "wres")
        elif r < 0.94:
            S.next(s)
        else:
            net_step(S, rng)
    return S


def heal(S, rng, max_steps=4000, max_ms=None, read_chunk=70000, closeit=True):
    """loss-free suffix: every segment delivered in order, readers keep reading, clocks notified at their deadlines,
    both applications close gracefully once they have nothing more to write.  Returns a dict describing the end."""
    t_heal = S.now
    for s in ("l", "r"):
        S.sockop(s, f"ptcp wres {s} ok", "wres")
    steps = 0
    closed_called = {"l": False, "r": False}
    while S.alive() and steps < max_steps:
        steps += 1
        progressed = False
        while S.alive() and (S.net["l"] or S.net["r"]) and steps < max_steps:
            net_step(S, rng, lossy=False)
            steps += 1
            progressed = True
        for s in ("l", "r"):
            d = S.recv(s, read_chunk)
            while d and d["ret"] > 0 and steps < max_steps:
                progressed = True
                steps += 1
                d = S.recv(s, read_chunk)
        if S.net["l"] or S.net["r"]:
            continue
        ql, qr = S.q("l"), S.q("r")
        if not ql or not qr:
            break
        done = all(S.errcb[s] or x["q"]["closed"] for s, x in (("l", ql), ("r", qr)))
        if done:
            break
        if closeit:
            for s, x in (("l", ql), ("r", qr)):
                other = "r" if s == "l" else "l"
                if not closed_called[s] and x["st"] in ("ESTABLISHED", "CLOSE-WAIT", "SYN-RECEIVED", "LISTEN", "SYN-SENT") \
                        and x["sb"] == 0 and x["q"]["avail"] == 0:
                    S.close(s, 0)
                    closed_called[s] = True
                    progressed = True
        if S.net["l"] or S.net["r"]:
            continue
        # nothing in flight: let time pass to the earliest deadline
        dl = []
        for s in ("l", "r"):
            d = S.next(s)
            if d and d["ret"] == 1:
                x = int(d["x"])
                dl.append((x - S.now) if x > S.now and x - S.now <= 70000 else 1)
        if not dl:
            break
        S.t(S.now + min(dl))
        S.clock("l"); S.clock("r")
        if max_ms is not None and (S.now - t_heal) % M32 > max_ms:
            break
    ql, qr = S.q("l"), S.q("r")
    return {"t_heal": t_heal, "t_end": S.now, "steps": steps, "ql": ql, "qr": qr,
            "elapsed": (S.now - t_heal) % M32}


# --------------------------------------------------------------------------- hostile packets
def options_blob(rng):
    out = bytearray()
    for _ in range(rng.choice([0, 1, 1, 2, 3, 6])):
        r = rng.random()
        if r < 0.3:
            out += bytes([3, 1, rng.choice([0, 1, 7, 14, 15, 16, 31, 32, 33, 200, 255, rng.randrange(256)])])
        elif r < 0.4:
            out += bytes([3, rng.choice([0, 2, 5, 255])]) + bytes(rng.randrange(256) for _ in range(rng.randrange(0, 4)))
        elif r < 0.55:
            out += bytes([254, 1, 0])
        elif r < 0.6:
            out += bytes([254, rng.choice([0, 2, 200])])
        elif r < 0.7:
            out += bytes([1])
        elif r < 0.75:
            out += bytes([0])
        elif r < 0.85:
            out += bytes([2, 2, 5, 0xb4])
        else:
            k, l = rng.randrange(256), rng.choice([0, 1, 2, 3, 10, 255, rng.randrange(256)])
            out += bytes([k, l]) + bytes(rng.randrange(256) for _ in range(rng.choice([0, l, max(l - 1, 0), min(l, 8)])))
    if rng.random() < 0.15 and out:
        out = out[:rng.randrange(len(out))]
    return bytes(out)


def hostile_packet(rng, st, conv, now):
    """st: last parsed reply of the victim (or None). Returns (bytes, wrongconv?)"""
    una = st["una"] if st else 0
    nxt = st["nxt"] if st else 0
    rnxt = st["rnxt"] if st else 0
    r = rng.random()
    if r < 0.03:
        return bytes(rng.randrange(256) for _ in range(rng.choice([0, 1, 4, 12, 23]))), False
    if r < 0.05:
        n = rng.choice([24, 25, 30, 100, 1000, 65531, 65532, 65533, 65535])
        return bytes(rng.randrange(256) for _ in range(n)), None
    offs = [0, 0, 0, 1, 2, -1, -2, 1 << 31, (1 << 31) - 1, (1 << 31) + 1, -(1 << 31), 100, 1000, -100, 65535, 65536,
            rng.randrange(M32), rng.randrange(0, 4000), -rng.randrange(0, 4000)]
    seq = (rng.choice([rnxt, rnxt, rnxt, rnxt, una, nxt, 0]) + rng.choice(offs)) % M32
    ack = (rng.choice([una, una, nxt, nxt, nxt, rnxt, 0]) + rng.choice(offs)) % M32
    flags = rng.choice([0] * 10 + [1, 1, 2, 2, 2, 3, 8, 0x10, 0x18, 0xfb, rng.randrange(256) & 0xfb] + [4, 5, 6, 7, 0xff, rng.randrange(256)])
    if flags & 4 and rng.random() < 0.8:
        flags &= 0xfb
    wnd = rng.choice([0, 1, 2, 100, 1000, 32767, 32768, 65535, rng.randrange(65536)])
    tsval = rng.choice([0, now, now + 1, now - 1, rng.randrange(M32)]) % M32
    tsecr = rng.choice([0, now, now, now - 1, now - 100, now + 1, (now + (1 << 31)) % M32, rng.randrange(M32)]) % M32
    lr = rng.random()
    if lr < 0.4:
        ln = 0
    elif lr < 0.8:
        ln = rng.randrange(1, 300)
    elif lr < 0.97:
        ln = rng.randrange(300, 5000)
    else:
        ln = rng.choice([65507, 65508, 65509, 65511, rng.randrange(5000, 65512)])
    if flags & 2 and rng.random() < 0.8:
        ob = options_blob(rng)
        payload = bytes([rng.choice([0, 0, 0, 0, 0, 0, 1, 255])]) + ob
        if rng.random() < 0.2:
            payload += bytes(rng.randrange(256) for _ in range(rng.randrange(0, 40)))
    else:
        payload = bytes(rng.randrange(256) for _ in range(ln)) if ln < 400 else bytes([rng.randrange(256)]) * ln
    wrong = rng.random() < 0.12
    c = conv
    if wrong:
        c = rng.choice([conv + 1, conv - 1, conv ^ 0x80000000, conv ^ 1, conv ^ 0x01000000, rng.randrange(M32)]) % M32
        if c == conv:
            c = (conv + 1) % M32
    full = mk_pkt(c, seq, ack, flags, wnd, tsval, tsecr, payload, ctl=rng.choice([0, 0, 0, rng.randrange(256)]))
    if rng.random() < 0.04:
        # a datagram cut inside the 24-byte header (right conversation number, too short to be a segment)
        return full[:rng.choice([4, 5, 8, 12, 16, 20, 23])], wrong
    return full, wrong


def hostile_step(S, s, rng):
    st = S.last[s]
    conv = S.cfg[s]["conv"]
    p, wrong = hostile_packet(rng, st, conv, S.now)
    # the agent hands every datagram to pseudo_tcp_socket_notify_message (24-byte header buffer + body buffer);
    # `pktm` takes that entry point, `pkt` the contiguous one — the model has one meaning for both
    d = S.sockop(s, f"ptcp {rng.choice(['pkt', 'pktm'])} {s} {p.hex() if p else '-'}", "hostile")
    idx = len(S.ops) - 1
    if d is not None:
        S.events.append((idx, "hostile", s, wrong, len(p), d["ret"]))
    return d


def flush_net(S, rng, only=None):
    for _ in range(40):
        c = [x for x in ("l", "r") if S.net[x] and (only is None or x == only)]
        if not c or not S.alive():
            return
        S.deliver(c[0], 0)


TARGETS = ["LISTEN", "SYN-SENT", "SYN-RECEIVED", "ESTABLISHED", "ESTABLISHED", "ESTABLISHED-DATA", "FIN-WAIT-1",
           "FIN-WAIT-2", "CLOSING", "TIME-WAIT", "CLOSE-WAIT", "LAST-ACK", "CLOSED", "MIXED", "MIXED", "MIXED"]


def hostile_session(live, rng, steps=150, params=None, target=None):
    """drive a victim into a chosen connection state with a legitimate peer, then interleave hostile packets with
    legitimate traffic.  Returns the Sess (S.mode = target state, S.victim)."""
    target = target or rng.choice(TARGETS)
    if target == "MIXED":
        S = legit_session(live, rng, steps=steps, params=params, hostile=rng.choice([0.1, 0.2, 0.4]))
        S.mode, S.victim = target, "both"
        return S
    S = Sess(live, rng)
    S.mode = target
    p = dict(params or {})
    if target in ("FIN-WAIT-1", "FIN-WAIT-2", "CLOSING", "TIME-WAIT", "CLOSE-WAIT", "LAST-ACK"):
        p.setdefault("finack_l", 1)
    if not start_pair(S, rng, None, p):
        return S
    v = "l"
    if target == "LISTEN":
        v = "r"
    elif target == "SYN-SENT":
        S.sockop("l", "ptcp connect l", "connect")
    elif target == "SYN-RECEIVED":
        S.sockop("l", "ptcp connect l", "connect")
        flush_net(S, rng, only="r")
        v = "r"
    else:
        establish(S, rng)
        if target == "ESTABLISHED-DATA":
            for _ in range(rng.randrange(1, 6)):
                S.send(rng.choice(["l", "r"]), chunk(rng), rng.randrange(256))
                if rng.random() < 0.6:
                    net_step(S, rng, lossy=rng.random() < 0.5)
            v = rng.choice(["l", "r"])
        elif target == "FIN-WAIT-1":
            S.shut("l", "wr")
        elif target == "FIN-WAIT-2":
            S.shut("l", "wr"); flush_net(S, rng)
        elif target == "CLOSING":
            S.shut("l", "wr"); S.shut("r", "wr"); flush_net(S, rng, only="l") if rng.random() < 0.5 else None
            # l got r's FIN before the ACK of its own FIN only if r's FIN was emitted before r saw l's FIN
        elif target == "TIME-WAIT":
            S.shut("l", "wr"); flush_net(S, rng); S.shut("r", "wr"); flush_net(S, rng, only="l")
        elif target == "CLOSE-WAIT":
            S.shut("l", "wr"); flush_net(S, rng); v = "r"
        elif target == "LAST-ACK":
            S.shut("l", "wr"); flush_net(S, rng); S.shut("r", "wr"); v = "r"
            if rng.random() < 0.5:
                tick(S, "r", rng)
        elif target == "CLOSED":
            S.close("l", rng.choice([0, 1])); v = rng.choice(["l", "r"])
    S.victim = v
    o = "r" if v == "l" else "l"
    for i in range(steps):
        if not S.alive():
            break
        r = rng.random()
        if r < 0.55:
            hostile_step(S, v, rng)
        elif r < 0.65:
            net_step(S, rng, lossy=rng.random() < 0.3)
        elif r < 0.72:
            S.send(rng.choice([v, o]), chunk(rng), rng.randrange(256))
        elif r < 0.80:
            S.recv(rng.choice([v, v, o]), chunk(rng))
        elif r < 0.90:
            tick(S, rng.choice([v, v, o]), rng, exact=rng.random() < 0.5)
        elif r < 0.94:
            S.q(v)
        elif r < 0.96:
            hostile_step(S, o, rng)
        elif r < 0.98:
            S.shut(rng.choice([v, o]), rng.choice(["rd", "wr", "rdwr"]))
        elif r < 0.985:
            S.close(v, rng.choice([0, 1]))
        else:
            S.sockop(v, f"ptcp mtu {v} {rng.choice([296, 1400, 9000, 65535])}", "mtu")
        if S.last[v] and S.last[v]["st"] == "CLOSED" and target != "CLOSED" and rng.random() < 0.15:
            break
    return S


def handmade_peer_session(live, rng):
    """one real socket against a HAND-MADE peer: we build the peer's connect message (with a chosen option list) and every
    ACK (all in order, all advertising the same 16-bit window), so the window the peer advertised is known exactly and
    independently of what the socket believes: W16 << k where k is the value of a well-formed window-scale option
    (kind 3, length 1; above 14 means 14) of the connect message, 0 without one.  Oracle: oracle_handmade."""
    S = Sess(live, rng)
    conv = rng.choice([0, 7, rng.randrange(M32)])
    S.t(rng.choice([1, 1000, 123456]))
    S.new("l", conv, rng.choice([0, 1]), rng.choice([4096, 61440, 1 << 17]), rng.choice([65536, 1 << 18, 1 << 20]), 1, 0)
    S.sockop("l", "ptcp connect l", "connect")
    if not S.alive() or not S.net["r"]:
        return S
    syn = pkt_fields(S.net["r"].pop(0))
    opts, scale = bytearray(), 0
    for _ in range(rng.choice([0, 1, 1, 2, 3])):
        r = rng.random()
        if r < 0.30:
            k = rng.choice([0, 1, 2, 3, 7, 14, 15, 200])
            opts += bytes([3, 1, k]); scale = min(k, 14)           # the last well-formed one counts
        elif r < 0.55:
            opts += bytes([2, 1, rng.choice([1, 2, 7, 14, 255])])   # MSS option, one value byte: not supported, ignored
        elif r < 0.65:
            opts += bytes([2, 2, 5, 0xb4])                          # MSS option of the usual size: ignored
        elif r < 0.75:
            opts += bytes([254, 1, 0])                              # FIN-ACK support
        elif r < 0.85:
            opts += bytes([1])                                      # no-op
        elif r < 0.93:
            opts += bytes([rng.choice([4, 5, 8, 77, 253]), 1, rng.choice([1, 9, 14])])   # unknown kinds: ignored
        else:
            opts += bytes([3, rng.choice([0, 2]), 9, 9][:2 + rng.choice([0, 2])])        # window scale with a wrong length: ignored
            break                                                   # (whatever follows is not relied upon)
    W16 = rng.choice([1, 50, 100, 400, 1000, 5000, 20000, 65535])
    now = S.now
    A = (syn["seq"] + syn["len"]) % M32
    S.sockop("l", "ptcp pkt l " + mk_pkt(conv, 0, A, 2, W16, now, now, bytes([0]) + bytes(opts)).hex(), "deliver")
    pseq = 1 + len(opts)
    S.hand = {"W16": W16, "scale": scale, "opts": bytes(opts).hex(), "acks": [(len(S.ops) - 1, A)], "conv": conv}
    S.net["r"].clear()
    for _ in range(rng.choice([3, 6, 12])):
        if not S.alive():
            break
        S.send("l", rng.choice([100, 1000, 20000, 70000]), rng.randrange(256))
        # the peer acknowledges everything it was sent, in order, same window
        for _ in range(30):
            if not S.net["r"] or not S.alive():
                break
            hi = A
            for h in S.net["r"]:
                f = pkt_fields(h)
                if f and f["len"] and not (f["flags"] & 2) and (f["seq"] - hi) % M32 == 0:
                    hi = (f["seq"] + f["len"]) % M32
            S.net["r"].clear()
            if hi == A:
                break
            A = hi
            S.sockop("l", "ptcp pkt l " + mk_pkt(conv, pseq, A, 0, W16, S.now, S.now).hex(), "deliver")
            S.hand["acks"].append((len(S.ops) - 1, A))
        if rng.random() < 0.3:
            S.t(S.now + rng.choice([10, 250, 1000]))
            S.clock("l")
    return S


def oracle_handmade(S):
    """no NEW data beyond (last acknowledged) + (advertised 16-bit window << advertised scale)"""
    h = getattr(S, "hand", None)
    if not h:
        return None
    limit = h["W16"] << h["scale"]
    acks = dict(h["acks"])
    A, hi = None, None
    for i, line in enumerate(S.ops):
        d = parse_reply(S.outs[i])
        if d is None:
            continue
        if i in acks:
            A = acks[i]
            if hi is None:
                hi = A
        if A is None:
            continue
        for e in d["ev"]:
            if not e.startswith("p:"):
                continue
            f = pkt_fields(e[2:])
            if f is None or f["len"] == 0 or (f["flags"] & 2):
                continue
            end = (f["seq"] + f["len"] - A) % M32
            if end < (1 << 31) and (f["seq"] + f["len"] - hi) % M32 < (1 << 31) and (f["seq"] + f["len"] - hi) % M32 > 0:
                if end > limit and not (limit == 0):
                    return (f"op {i}: the peer's connect message carried options {h['opts'] or '(none)'} (window scale {h['scale']}) and every ACK "
                            f"advertised a window of {h['W16']}: the socket sent new data up to {end} bytes past the last acknowledged byte, "
                            f"the advertised window is {limit}")
                hi = (f["seq"] + f["len"]) % M32
    return None


# --------------------------------------------------------------------------- oracles (on the REAL code's outputs)
def oracle_prefix(S):
    """C08 (N): in both directions the bytes read are a prefix of the bytes accepted by send"""
    for a, b in (("l", "r"), ("r", "l")):
        rd, sn = bytes(S.read[b]), bytes(S.sent[a])
        if rd != sn[:len(rd)]:
            k = next((i for i in range(min(len(rd), len(sn))) if rd[i] != sn[i]), min(len(rd), len(sn)))
            return f"bytes read by {b} are not a prefix of the bytes written by {a}: first difference at offset {k} " \
                   f"(read {len(rd)}, written {len(sn)})"
    return None


def oracle_eos(S):
    """C08 (E): recv()==0 / is_closed_remotely only after all bytes written before the peer's graceful close were
    read (resp. received), unless an error closure was reported first"""
    rd = {"l": 0, "r": 0}
    err_at = {s: (S.errcb[s][0][0] if S.errcb[s] else None) for s in ("l", "r")}
    # replay the session's bookkeeping in op order
    sent = {"l": 0, "r": 0}
    closed_at = {"l": None, "r": None}      # op index of the first graceful close call
    local_rd = {"l": None, "r": None}
    silent = {"l": False, "r": False}
    for i, line in enumerate(S.ops):
        w = line.split()
        d = parse_reply(S.outs[i])
        if d is None or len(w) < 3 or w[2] not in ("l", "r"):
            continue
        s = w[2]
        o = "r" if s == "l" else "l"
        if w[1] == "sendp" and d["ret"] > 0:
            sent[s] += d["ret"]
        elif w[1] in ("shut", "close"):
            how = w[3] if w[1] == "shut" else ("force" if w[3] == "1" else "rdwr")
            prev = S._st_before.get(i, ("LISTEN", 1))
            if how == "force" and prev[0] != "CLOSED":
                continue
            if how == "force":
                how = "rdwr"
            if how in ("rd", "rdwr") and prev[1]:
                local_rd[s] = i
            if how in ("wr", "rdwr"):
                if not prev[1] or prev[0] in ("LISTEN", "SYN-SENT"):
                    silent[s] = True
                if closed_at[s] is None:
                    closed_at[s] = (i, sent[s])
        elif w[1] == "recv":
            if d["ret"] > 0:
                rd[s] += d["ret"]
            if d["ret"] == 0 and int(w[3]) > 0 and d["fa"] == 1 and local_rd[s] is None and not silent[s] \
                    and (err_at[s] is None or err_at[s] > i):
                if closed_at[o] is None:
                    return f"op {i}: recv on {s} returned 0 (end of stream) although {o} never closed and no error was reported"
                if rd[s] != closed_at[o][1]:
                    return f"op {i}: recv on {s} returned 0 after {rd[s]} bytes although {o} wrote {closed_at[o][1]} bytes " \
                           f"before its graceful close, and no error was reported"
        elif w[1] == "q":
            q = dict(kv.split("=") for kv in d["x"].split(","))
            if q["rclosed"] == "1" and d["fa"] == 1 and not silent[s] and (err_at[s] is None or err_at[s] > i):
                if closed_at[o] is None:
                    return f"op {i}: {s} reports the peer closed although {o} never closed and no error was reported"
                if rd[s] + int(q["avail"]) != closed_at[o][1]:
                    return f"op {i}: {s} reports the peer closed with {rd[s]} read + {q['avail']} buffered bytes although " \
                           f"{o} wrote {closed_at[o][1]} bytes before its graceful close, and no error was reported"
    return None


def st_before(S):
    """(state, fin-ack flag) of the socket before each op, from the previous reply of that socket"""
    last = {"l": ("LISTEN", 1), "r": ("LISTEN", 1)}
    out = {}
    for i, line in enumerate(S.ops):
        w = line.split()
        if len(w) >= 3 and w[2] in ("l", "r"):
            out[i] = last[w[2]]
            d = parse_reply(S.outs[i])
            if d:
                last[w[2]] = (d["st"], d["fa"])
    return out


def oracle_c10(S):
    """C10: wrong-conversation packets change nothing and emit nothing; undelivered data <= receive buffer;
    new data stays within the most recently advertised window"""
    last = {"l": None, "r": None}
    hi = {"l": 0, "r": 0}           # highest sequence number (absolute, unwrapped by ordering) sent so far
    for i, line in enumerate(S.ops):
        w = line.split()
        d = parse_reply(S.outs[i])
        if d is None or len(w) < 3 or w[2] not in ("l", "r"):
            continue
        s = w[2]
        if w[1] == "new":
            last[s] = d
            hi[s] = 0
            continue
        prev = last[s]
        if w[1] in ("pkt", "pktm") and prev is not None:
            f = pkt_fields(w[3])
            if f is None or f["conv"] != S.cfg[s]["conv"] or f["len"] + 24 > 65532:
                # foreign / truncated / over-long packet
                exp_err = prev["err"]
                if w[1] == "pktm" and (f is None or f["len"] + 24 > 65532):
                    exp_err = prev["err"]          # notify_message refuses without recording an error code
                elif f is None:
                    exp_err = "EINVAL"
                elif f["len"] + 24 > 65532:
                    exp_err = "EMSGSIZE"
                if d["ev"] or d["ret"] != 0 or d["priv"] != prev["priv"] or d["err"] != exp_err:
                    return f"op {i}: a foreign/short/over-long packet changed the socket or made it emit: before `{prev['priv'][:120]}..` after `{d['priv'][:120]}..` ev={d['ev'][:2]}"
        # receive buffer bound
        cap = S.cfg[s]["rcvbuf"]
        if d["rb"] > cap or d["rb"] > d["rbl"]:
            return f"op {i}: {d['rb']} undelivered bytes exceed the configured receive buffer {cap} (rbuf_len {d['rbl']})"
        # window: new data only within snd_una + snd_wnd (as advertised by the last accepted ACK)
        for e in d["ev"]:
            if not e.startswith("p:"):
                continue
            f = pkt_fields(e[2:])
            if f is None or f["len"] == 0 or (f["flags"] & 2):
                continue
            end_rel = (f["seq"] + f["len"] - d["una"]) % M32
            old_hi_rel = (hi[s] - d["una"]) % M32 if hi[s] is not None else 0
            if old_hi_rel >= (1 << 31):
                old_hi_rel = 0
            if end_rel < (1 << 31) and end_rel > old_hi_rel:
                # new data
                if end_rel > d["swnd"]:
                    # classify: the FIN / RST flush of attempt_send (sfFin, sfRst) or the ordinary data path
                    flush = any(g.split("f")[-1].rstrip("u") in ("1", "4") for g in d["sl"]) or \
                        any((pkt_fields(x[2:]) or {"flags": 0})["flags"] & 5 for x in d["ev"] if x.startswith("p:"))
                    tag = "[fin-rst-flush]" if flush else "[data-path]"
                    return f"op {i}: {tag} {s} sent new data up to snd_una+{end_rel} but the peer's advertised window is " \
                           f"{d['swnd']} (op `{line[:60]}`)"
                hi[s] = (f["seq"] + f["len"]) % M32
        last[s] = d
    return None


def oracle_next(S, slack=0):
    """C09: while a socket is not closed, get_next_clock names a finite deadline, at most DEFAULT_TIMEOUT (4 s; 60 s for
    a closed socket without FIN-ACK) after now, modulo the 32-bit clock"""
    for ev in S.events:
        if ev[1] != "next":
            continue
        i, _, s, ret, x, now, st = ev
        d = parse_reply(S.outs[i])
        if d is None:
            continue
        closed = st == "CLOSED"
        if ret == 0:
            if not closed:
                return f"op {i}: get_next_clock on {s} returned FALSE (no deadline) in state {st}"
            continue
        delta = (x - now) % M32
        late = x - now
        if late > 60000 + slack:
            return f"op {i}: get_next_clock on {s} names a deadline {late} ms ahead (state {st})"
        if not closed and delta > 4000 + slack and delta < (1 << 31) and x >= now:
            return f"op {i}: get_next_clock on {s} names a deadline {delta} ms ahead in state {st} (DEFAULT_TIMEOUT is 4000)"
    return None


def crashed(S):
    if S.live.dead:
        return {"session": S.ops, "why": "implementation crashed / aborted (sanitizer report, g_assert or signal)",
                "stderr": S.live.stderr[-2500:], "last_op": S.ops[-1] if S.ops else None}
    return None


# --------------------------------------------------------------------------- running many sessions
def retrying(f, tries=30):
    """run f(), retrying while the harness binary is being relinked by a concurrent check run"""
    for attempt in range(tries):
        try:
            return f()
        except (PermissionError, OSError):
            if attempt == tries - 1:
                raise
            time.sleep(1)


def gen_parallel(exe, seeds, fn, workers=None):
    """run fn(live, rng) -> Sess for each seed, each on its own harness process"""
    import random
    workers = workers or min(vlib.NCPU, 16)

    def one(seed):
        live = Live(exe)
        try:
            rng = random.Random(seed)
            S = fn(live, rng)
            S._st_before = st_before(S)
            return S
        finally:
            live.close()
    with ThreadPoolExecutor(max_workers=workers) as ex:
        return list(ex.map(one, seeds))


def load_corpus(prop):
    d = os.path.join(vlib.ROOT, "corpus", prop)
    out = []
    if os.path.isdir(d):
        for f in sorted(os.listdir(d)):
            if f.endswith(".ops"):
                out.append((f, [l.strip() for l in open(os.path.join(d, f)) if l.strip() and not l.startswith("#")]))
    return out


class Replayed:
    """a recorded op list + implementation outputs, shaped like a Sess for the oracles"""

    def __init__(self, ops, outs, dead=False, stderr=""):
        self.ops, self.outs = ops, outs
        self.cfg, self.read, self.sent = {}, {"l": bytearray(), "r": bytearray()}, {"l": bytearray(), "r": bytearray()}
        self.errcb = {"l": [], "r": []}
        self.events = []
        now = 0

        class L:
            pass
        self.live = L()
        self.live.dead, self.live.stderr = dead, stderr
        for i, (line, o) in enumerate(zip(ops, outs)):
            w = line.split()
            d = parse_reply(o)
            if len(w) >= 3 and w[1] == "t":
                now = int(w[2])
            if d is None or len(w) < 3 or w[2] not in ("l", "r"):
                continue
            s = w[2]
            if w[1] == "new":
                kv = dict(x.split("=") for x in w[4:])
                self.cfg[s] = dict(conv=int(w[3]), rcvbuf=int(kv["rcvbuf"]), sndbuf=int(kv["sndbuf"]))
            for e in d["ev"]:
                if e.startswith("closed:"):
                    self.errcb[s].append((i, e[7:]))
            if w[1] == "sendp" and d["ret"] > 0:
                self.sent[s] += pat(int(w[3]), int(w[4]))[:d["ret"]]
            if w[1] == "send" and d["ret"] > 0:
                self.sent[s] += bytes.fromhex(w[3])[:d["ret"]]
            if w[1] == "recv" and d["ret"] > 0:
                self.read[s] += bytes.fromhex(d["x"])
            if w[1] == "next":
                self.events.append((i, "next", s, d["ret"], int(d["x"]), now, d["st"]))
        self._st_before = st_before(self)


def run_corpus(exe, corpus):
    out = []
    for name, ops in corpus:
        io, rc, err = retrying(lambda: vlib.run_lines(exe, ["reset"] + ops))
        outs = io[1:] + [None] * (len(ops) - len(io) + 1)
        out.append((name, Replayed(ops, outs[:len(ops)], dead=len(io) < len(ops) + 1, stderr=err)))
    return out


def histogram(sessions):
    kinds, states, cbs, errs = {}, {}, {}, {}
    for S in sessions:
        for i, line in enumerate(S.ops):
            w = line.split()
            k = w[1] if len(w) > 1 else w[0]
            kinds[k] = kinds.get(k, 0) + 1
            d = parse_reply(S.outs[i]) if i < len(S.outs) else None
            if d:
                states[d["st"]] = states.get(d["st"], 0) + 1
                errs[d["err"]] = errs.get(d["err"], 0) + 1
                for e in d["ev"]:
                    if not e.startswith("p:"):
                        cbs[e] = cbs.get(e, 0) + 1
                    else:
                        cbs["packet"] = cbs.get("packet", 0) + 1
    return {"op_kinds": kinds, "states_after_op": states, "callbacks": cbs, "errno_after_op": errs}


def known_match(prop, why):
    """a failure matches a `known` record of KNOWN_FINDINGS.jsonl when the record's `match` string occurs in the reason"""
    extra = []
    if os.environ.get("VERIF_KNOWN_EXTRA") and os.path.exists(os.environ["VERIF_KNOWN_EXTRA"]):
        extra = [json.loads(l) for l in open(os.environ["VERIF_KNOWN_EXTRA"]) if l.strip() and not l.startswith("#")]
    for k in vlib.known_findings() + extra:
        if k.get("property") == prop and k.get("status") == "known" and k.get("match") and k["match"] in why:
            return k
    return None


# --------------------------------------------------------------------------- the C10 check
def run(tier, seed):
    chk = vlib.Check("C10", tier, seed)
    chk.cov["trusted_base"] = TRUSTED
    chk.assumptions = ["buffer sizes 1 KiB..1 MiB, MTU 296..65535 (the property's configuration range)",
                       "`new data` = payload bytes above the highest sequence number sent so far; retransmissions and "
                       "zero-window probes are excluded by the property's statement"]
    st = vlib.std_pipeline(chk, MODULE, THEOREMS)
    diverged, ofail = [], []
    if st["libs"]:
        ok, exe, log = vlib.build_harness("ptcp_drv", multidef=True)
        if not ok:
            chk.note("harness build failed: " + log[-1500:])
            st["libs"] = False
            st["log"] = log
        else:
            nh, nl = (520, 80) if tier == "quick" else (6000, 1200)
            base = seed * 1000003
            t0 = time.time()
            H = gen_parallel(exe, [f"C10/h/{base + i}" for i in range(nh)],
                             lambda live, rng: hostile_session(live, rng, steps=rng.choice([60, 120, 200])))
            L = gen_parallel(exe, [f"C10/l/{base + i}" for i in range(nl)],
                             lambda live, rng: legit_session(live, rng, steps=rng.choice([80, 160])))
            chk.note(f"generated {len(H)} hostile + {len(L)} legitimate sessions on the real code in {time.time() - t0:.1f}s")
            corpus = run_corpus_scripts(exe, load_corpus("C10"), seed)
            M = gen_parallel(exe, [f"C10/m/{base + i}" for i in range(120 if tier == "quick" else 2000)], handmade_peer_session)
            allS = [s for _, s in corpus] + H + L + M
            known_seen = {}
            for S in allS:
                c = crashed(S)
                why = None if c else (oracle_c10(S) or oracle_handmade(S))
                if c or why:
                    rec = c or {"session": S.ops, "why": why}
                    k = known_match("C10", rec["why"] + " " + rec.get("stderr", ""))
                    if k:
                        kid = k.get("id", k.get("text", ""))
                        if kid not in known_seen:
                            chk.known(k.get("text", kid))
                        known_seen[kid] = known_seen.get(kid, 0) + 1
                    else:
                        ofail.append(rec)
            if known_seen:
                chk.cov["known_finding_hits"] = known_seen
            sessions = [S.ops for S in allS if not S.live.dead]
            if st["proof"] or os.path.exists(vlib.model_exe()):
                diverged, total = retrying(lambda: vlib.diff_sessions(exe, sessions))
            nhost = sum(1 for S in allS for e in S.events if e[1] == "hostile")
            chk.cov["evaluations"] = sum(len(S.ops) for S in allS)
            chk.cov["traces_validated_against_impl"] = len(sessions) - len(diverged)
            distinct = set()
            for S in allS:
                for e in S.events:
                    if e[1] == "hostile" and e[5] == 1:
                        distinct.add(S.ops[e[0]])
            chk.cov["distinct_nontrivial"] = len(distinct)
            chk.cov["rule"] = ("sessions = adaptive two-socket schedules on the real code with hostile packets injected at "
                               "random points (plus single-socket hostile sessions from LISTEN / SYN-SENT); evaluations = "
                               "operations executed; non-trivial = distinct hostile packets that the real code accepted "
                               "(notify_packet returned TRUE, i.e. they passed every entry check and were processed)")
            chk.cov["samples"] = [H[0].ops[:6] if H else [], L[0].ops[:6] if L else []]
            gd = histogram(allS)
            gd["hostile_packets"] = nhost
            gd["wrong_conversation_packets"] = sum(1 for S in allS for e in S.events if e[1] == "hostile" and e[3])
            gd["corpus"] = [n for n, _ in corpus]
            hs = {}
            for S in allS:
                for e in S.events:
                    if e[1] == "hostile":
                        stt = S._st_before.get(e[0], ("?", 1))[0]
                        hs[stt] = hs.get(stt, 0) + 1
            gd["hostile_packets_by_state_before"] = hs
            chk.cov["generator_distribution"] = gd
    return conclude(chk, st, diverged, ofail, "ptcp_drv:hostile+legit")


def replay(path):
    r = json.load(open(path))
    s = r.get("session")
    if not s:
        print(json.dumps(r, indent=1)[:4000]); return 0
    vlib.ensure_libs(); vlib.extract(); vlib.lake_build(["nicemodel"])
    ok, exe, log = vlib.build_harness("ptcp_drv", multidef=True)
    io, rc, err = vlib.run_lines(exe, ["reset"] + s)
    mo, _, _ = vlib.run_lines(vlib.model_exe(), ["reset"] + s)
    for k, l in enumerate(["reset"] + s):
        a = io[k] if k < len(io) else "<no output: crashed>"
        b = mo[k] if k < len(mo) else "<no output>"
        print(f"{l[:100]}\n   impl : {a[:300]}\n   model: {b[:300]}{'' if a == b else '   <-- DIFFERENT'}")
    if len(io) < len(s) + 1:
        print("implementation died:", err[-2000:])
        return 1
    S = Replayed(s, io[1:])
    why = oracle_c10(S)
    print("oracle:", why)
    return 1 if why else 0


# --------------------------------------------------------------------------- C09 sessions (healing schedules)
def c09_session(live, rng, heal_at=None, origin=None, params=None, random_close=False, never_heal=False):
    """lossy / stalling phase until the virtual time `heal_at` ms after the start, then a loss-free suffix in which the
    readers keep reading, clocks are notified at their deadlines and both applications shut down (WR) once they have
    written everything and close once they have read everything the peer wrote.  Result in S.c09."""
    S = Sess(live, rng)
    if not start_pair(S, rng, origin, params):
        return S
    t_start = S.now
    heal_at = rng.choice([0, 0, 500, 3000, 10000, 30000, 60000, 120000, rng.randrange(0, 120001)]) if heal_at is None else heal_at
    S.sockop("l", "ptcp connect l", "connect")
    want = {"l": rng.choice([0, 1, 100, 5000, 70000, 250000]), "r": rng.choice([0, 0, 1, 5000, 70000])}
    todo = dict(want)
    stall = {"l": 0, "r": 0}
    loss = rng.choice([0.05, 0.2, 0.5, 0.9])
    guard = 0
    while S.alive() and (S.now - t_start) % M32 < heal_at and guard < 1500:
        guard += 1
        r = rng.random()
        s = rng.choice(["l", "r"])
        if r < 0.35:
            c = [x for x in ("l", "r") if S.net[x]]
            if c:
                x = rng.choice(c)
                if rng.random() < loss:
                    del S.net[x][rng.randrange(len(S.net[x]))]
                    S.kinds["drop"] = S.kinds.get("drop", 0) + 1
                else:
                    net_step(S, rng)
        elif r < 0.50:
            if todo[s] > 0:
                d = S.send(s, min(chunk(rng), todo[s]), rng.randrange(256))
                if d and d["ret"] > 0:
                    todo[s] -= d["ret"]
        elif r < 0.62:
            if stall[s] > 0:
                stall[s] -= 1
            else:
                S.recv(s, chunk(rng))
                if rng.random() < 0.1:
                    stall[s] = rng.randrange(5, 80)      # reader stall
        elif r < 0.90:
            tick(S, s, rng, exact=rng.random() < 0.8)
        elif r < 0.93:
            S.q(s)
        elif r < 0.95:
            S.sockop(s, f"ptcp mtu {s} {rng.choice([296, 508, 1400, 1500, 9000, 65535, rng.randrange(296, 65536)])}", "mtu")
        elif r < 0.96 and random_close:
            S.shut(s, rng.choice(["wr", "rdwr", "rd"]))
        elif r < 0.965 and random_close:
            S.close(s, rng.choice([0, 0, 1]))
        else:
            S.next(s)
    if never_heal:
        S.c09 = {"healed": False}
        return S
    c09_heal(S, rng, todo, want, random_close, heal_at)
    return S


def halfclose_unread_session(live, rng, lossy=False):
    """C08 (E) directed: both applications half-close (shutdown WR) and the whole FIN handshake runs to CLOSED while
    correctly received bytes are still UNREAD in one or both receive buffers; only then the readers read.  Every byte
    written before the graceful close must still come out, and only then end-of-stream."""
    S = Sess(live, rng)
    if not start_pair(S, rng, None, dict(finack_l=1, finack_r=1, rcvbuf_l=65536, rcvbuf_r=65536)):
        return S
    if not establish(S, rng):
        return S
    want = {"l": rng.choice([1, 100, 3000, 20000]), "r": rng.choice([0, 0, 500, 2000])}
    for x in ("l", "r"):
        todo = want[x]
        while todo > 0 and S.alive():
            d = S.send(x, min(todo, 5000), rng.randrange(256))
            if not d or d["ret"] <= 0:
                break
            todo -= d["ret"]
    order = ["l", "r"] if rng.random() < 0.5 else ["r", "l"]
    pending_shut = list(order)
    if rng.random() < 0.5:
        S.shut(pending_shut.pop(0), "wr")      # the first FIN travels with / behind the data
    for _ in range(400):
        if not S.alive():
            break
        if S.net["l"] or S.net["r"]:
            if lossy and rng.random() < 0.15:
                x = rng.choice([y for y in ("l", "r") if S.net[y]])
                del S.net[x][rng.randrange(len(S.net[x]))]
            else:
                net_step(S, rng, lossy=False)
            continue
        if pending_shut:
            S.shut(pending_shut.pop(0), "wr")
            continue
        ql, qr = S.q("l"), S.q("r")
        if not ql or not qr or (ql["q"]["closed"] and qr["q"]["closed"]):
            break
        dl = {}
        for x in ("l", "r"):
            d = S.next(x)
            if d and d["ret"] == 1:
                dl[x] = (int(d["x"]) - S.now) % M32
        if not dl:
            break
        x = min(dl, key=dl.get)
        S.t(S.now + (dl[x] if 0 < dl[x] <= 70000 else 1))
        S.clock(x)
    # only now the applications read
    for x in ("l", "r"):
        for _ in range(40):
            d = S.recv(x, rng.choice([100, 4096, 70000]))
            if not d or d["ret"] <= 0:
                break
    return S


def stale_window_close_session(live, rng):
    """C08 directed: the receiver's buffer filled while it did not read (advertised window 0); a small read frees less
    than the window-update threshold min(rcv-buf / 2, MSS), so the advertised window stays 0 although there is room again;
    the writer writes a little more and closes gracefully — the close flushes the queued data together with the FIN — and
    the FIN overtakes the data (reordering) or the data segment is lost once and retransmitted.  Everything written
    before the graceful close must still be read before end-of-stream."""
    S = Sess(live, rng)
    rb = rng.choice([1024, 2000, 4096, 8192])
    if not start_pair(S, rng, None, dict(finack_l=1, finack_r=rng.choice([0, 1, 1]), rcvbuf_r=rb, rcvbuf_l=61440, sndbuf_l=65536,
                                         sndbuf_r=4096, nodelay_l=1, nodelay_r=1, ackdelay_l=0, ackdelay_r=0)):
        return S
    if not establish(S, rng):
        return S
    todo = rb
    for _ in range(60):
        if todo <= 0 or not S.alive():
            break
        d = S.send("l", todo, rng.randrange(256))
        if d and d["ret"] > 0:
            todo -= d["ret"]
        flush_net(S, rng)
        if S.last["r"] and S.last["r"]["rb"] >= len(S.sent["l"]) and todo <= 0:
            break
        if not (S.net["l"] or S.net["r"]):
            tick(S, "l", rng)
    if not S.alive() or not S.last["r"]:
        return S
    thr = max(min(rb // 2, S.last["r"]["mss"]), 2)
    x = rng.randrange(1, thr)
    S.recv("r", x)
    flush_net(S, rng)
    y = rng.randrange(1, x + 1)
    S.send("l", y, rng.randrange(256))
    flush_net(S, rng)
    if rng.random() < 0.7:
        S.shut("l", "wr")
    else:
        S.close("l", 0)
    how = rng.choice(["fin-first", "fin-first", "drop-data", "in-order"])
    pk = list(S.net["r"])
    if how == "fin-first":
        S.net["r"] = pk[::-1]
    elif how == "drop-data" and len(pk) > 1:
        S.net["r"] = pk[-1:]
    S.stale = {"rb": rb, "read_first": x, "then_written": y, "how": how, "flushed_packets": len(pk)}
    c09_heal(S, rng, {"l": 0, "r": 0}, {"l": len(S.sent["l"]), "r": 0}, max_ops=4000)
    return S


def c09_noack_close_session(live, rng):
    """sockets without FIN-ACK support: the writer queues far more than the reader's window admits and closes gracefully
    (close(FALSE)) at once; the reader stalls for a while, then reads.  Everything accepted by send() must become readable
    (or an error be reported): a graceful close may not drop buffered data.  Result in S.c09 (stall_only semantics)."""
    S = Sess(live, rng)
    rb = rng.choice([1024, 2048, 4096, 8192])
    if not start_pair(S, rng, None, dict(finack_l=0, finack_r=rng.choice([0, 0, 1]), rcvbuf_r=rb, rcvbuf_l=4096,
                                         sndbuf_l=1 << 20)):
        return S
    if not establish(S, rng):
        return S
    want = {"l": rb * rng.choice([3, 5, 10]), "r": 0}
    todo = dict(want)
    while todo["l"] > 0 and S.alive():
        d = S.send("l", min(todo["l"], 5000), rng.randrange(256))
        if not d or d["ret"] <= 0:
            break
        todo["l"] -= d["ret"]
    S.close("l", 0)
    stall_ms = rng.choice([1000, 3000, 6000, 10000])
    t0 = S.now
    for phase in ("stall", "read"):
        for _ in range(3000):
            if not S.alive():
                break
            if S.net["l"] or S.net["r"]:
                net_step(S, rng, lossy=False)
                continue
            if phase == "read":
                d = S.recv("r", 70000)
                if d and d["ret"] > 0:
                    continue
            dl = {}
            for x in ("l", "r"):
                d = S.next(x)
                if d and d["ret"] == 1:       # the owner stops servicing a socket whose get_next_clock returns FALSE
                    dl[x] = (int(d["x"]) - S.now) % M32
            if phase == "stall" and (S.now - t0) % M32 >= stall_ms:
                break
            if not dl:
                if phase == "stall":
                    S.t(t0 + stall_ms)
                break
            x = min(dl, key=dl.get)
            step = dl[x] if 0 < dl[x] <= 70000 else 1
            if phase == "stall" and step > stall_ms - (S.now - t0) % M32:
                S.t(t0 + stall_ms)
                break
            S.t(S.now + step)
            S.clock(x)
            if phase == "read" and (S.now - t0) % M32 > stall_ms + 120000:
                break
    ql, qr = S.q("l"), S.q("r")
    S.c09 = {"healed": True, "heal_at": 0, "t_heal": t0, "elapsed": (S.now - t0) % M32, "steps": 0, "end": "done",
             "want": want, "todo": todo, "random_close": False,
             "closed": {s: bool(q and q["q"]["closed"]) for s, q in (("l", ql), ("r", qr))},
             "errcb": {s: [e for _, e in S.errcb[s]] for s in ("l", "r")},
             "read": {s: len(S.read[s]) for s in ("l", "r")}, "sent": {s: len(S.sent[s]) for s in ("l", "r")},
             "mss_min": S.mss_min, "stall_only": stall_ms, "noack_close": True}
    return S


def c09_stall_session(live, rng, stall_ms, params=None, origin=None):
    """the network never loses anything; the only adversity is a reader (r) that does not read for `stall_ms` while the
    writer has far more data than r's receive buffer, so the receive window closes "for a while"; then the loss-free
    suffix of c09_heal.  Oracle (oracle_c09): no error closure at all is acceptable here."""
    S = Sess(live, rng)
    if not start_pair(S, rng, origin, params):
        return S
    t_start = S.now
    S.sockop("l", "ptcp connect l", "connect")
    rb = (params or {}).get("rcvbuf_r", 4096)
    # (capped: every byte is kept several times over as hex in the recorded operations and replies — a 40 MiB transfer per
    #  session exhausted the machine's memory in the thorough tier)
    want = {"l": min(rb * rng.choice([3, 10, 40]), max(3 * rb, 1500000) if rb <= (1 << 17) else 3 * rb // 2), "r": 0}
    todo = dict(want)
    guard = 0
    while S.alive() and (S.now - t_start) % M32 < stall_ms and guard < 4000:
        guard += 1
        n = 0
        while S.alive() and (S.net["l"] or S.net["r"]) and n < 200:
            net_step(S, rng, lossy=False)
            n += 1
        if todo["l"] > 0:
            d = S.send("l", min(chunk(rng), todo["l"]), rng.randrange(256))
            if d and d["ret"] > 0:
                todo["l"] -= d["ret"]
                continue
        dl = {}
        for x in ("l", "r"):
            d = S.next(x)
            if d and d["ret"] == 1:
                dl[x] = (int(d["x"]) - S.now) % M32
        if not dl:
            S.t(S.now + 1000)
            continue
        x = min(dl, key=dl.get)
        step = dl[x] if 0 < dl[x] <= 70000 else 1
        left = stall_ms - (S.now - t_start) % M32
        if step > left:
            S.t(S.now + left)          # the reader resumes before the next deadline: no clock notification yet
            break
        S.t(S.now + step)
        S.clock(x)
    c09_heal(S, rng, todo, want, False, stall_ms, passive=("r",))
    if getattr(S, "c09", None):
        S.c09["stall_only"] = stall_ms
    return S


def c09_heal(S, rng, todo, want, random_close=False, heal_at=0, max_ops=25000, passive=()):
    """the loss-free suffix of a C09 run (see c09_session); fills S.c09"""
    # ---- healing: from here on nothing is lost and the readers keep reading
    t_heal = S.now
    S.events.append((len(S.ops), "heal", t_heal))
    shut_done = {"l": False, "r": False}
    close_done = {"l": False, "r": False}
    steps, max_steps = 0, 6000
    end = None
    idle_rounds = 0
    ops0 = len(S.ops)
    while S.alive() and steps < max_steps:
        steps += 1
        if (S.now - t_heal) % M32 > c09_bound({"want": want, "mss_min": S.mss_min}):
            end = "bound-exceeded"
            break
        if len(S.ops) - ops0 > max_ops:
            end = "op-cap"
            break
        burst = 0
        storm = 0
        # (at most 100 deliveries before the applications and the clocks get their turn, fewer when the sockets only
        #  exchange empty duplicate ACKs: two sockets that both miss data answer every empty out-of-sequence ACK with
        #  a duplicate ACK, which never ends by itself on a zero-latency network; the packets stay queued = delayed)
        while S.alive() and (S.net["l"] or S.net["r"]) and burst < 100:
            n0 = len(S.ops)
            net_step(S, rng, lossy=False)
            burst += 1
            w = S.ops[-1].split()
            d = S.last.get(w[2]) if len(w) > 3 and len(S.ops) > n0 else None
            if d and len(w[3]) == 48 and len(d["ev"]) == 1 and d["ev"][0].startswith("p:") and len(d["ev"][0]) == 50 \
                    and d["_prev"] and d["_prev"]["una"] == d["una"] and d["_prev"]["rnxt"] == d["rnxt"]:
                storm += 1
                if storm >= 8:
                    burst = 100
            else:
                storm = 0
        for s in ("l", "r"):
            d = S.recv(s, 70000)
            while d and d["ret"] > 0 and steps < max_steps:
                steps += 1
                d = S.recv(s, 70000)
        ql, qr = S.q("l"), S.q("r")
        if not ql or not qr:
            break
        Q = {"l": ql, "r": qr}
        if all(S.errcb[s] or Q[s]["q"]["closed"] for s in ("l", "r")):
            end = "done"
            break
        for s in ("l", "r"):
            o = "r" if s == "l" else "l"
            stt, fa = Q[s]["st"], Q[s]["fa"]
            peer_gone = bool(S.errcb[o]) or Q[o]["q"]["closed"]
            if stt not in ("LISTEN", "SYN-SENT", "SYN-RECEIVED", "ESTABLISHED") or peer_gone:
                todo[s] = 0          # send() refuses data once a FIN was received or sent
            if stt == "ESTABLISHED" and todo[s] > 0 and Q[s]["q"]["space"] > 0:
                d = S.send(s, min(todo[s], 70000), rng.randrange(256))
                if d and d["ret"] > 0:
                    todo[s] -= d["ret"]
            if close_done[s] or Q[s]["q"]["closed"] or S.errcb[s]:
                continue
            peer_done = todo[o] == 0 and len(S.read[s]) >= len(S.sent[o])
            if peer_gone:
                S.close(s, 0)
                close_done[s] = True
            elif random_close:
                if todo[s] == 0 and Q[s]["sb"] == 0 and stt in ("ESTABLISHED", "CLOSE-WAIT"):
                    S.close(s, 0)
                    close_done[s] = True
            elif fa:
                # (a `passive` application is a pure reader: it keeps its write side open until it has read everything)
                if not shut_done[s] and todo[s] == 0 and stt in ("ESTABLISHED", "CLOSE-WAIT") and \
                        (s not in passive or peer_done):
                    S.shut(s, "wr")
                    shut_done[s] = True
                elif shut_done[s] and peer_done and (shut_done[o] or Q[o]["st"] not in ("ESTABLISHED",)):
                    S.close(s, 0)
                    close_done[s] = True
            else:
                # without FIN-ACK support shutdown() discards all later input: close only after reading everything
                if todo[s] == 0 and peer_done and stt == "ESTABLISHED" and Q[s]["sb"] == 0:
                    S.close(s, 0)
                    close_done[s] = True
        if (S.net["l"] or S.net["r"]) and burst < 100:
            continue
        dl = []
        for s in ("l", "r"):
            d = S.next(s)
            if d and d["ret"] == 1:
                delta = (int(d["x"]) - S.now) % M32       # the clock is a 32-bit millisecond counter
                dl.append(delta if 0 < delta <= 70000 else 1)
        if not dl:
            idle_rounds += 1
            if idle_rounds > 3:
                end = "no-deadline"
                break
            continue
        S.t(S.now + (min(dl) if burst < 100 else min(min(dl), 20)))
        S.clock("l"); S.clock("r")
    ql, qr = S.q("l"), S.q("r")
    S.c09 = {"healed": True, "heal_at": heal_at, "t_heal": t_heal, "elapsed": (S.now - t_heal) % M32, "steps": steps,
             "end": end or ("harness-died" if not S.alive() else "step-cap"), "want": want, "todo": todo,
             "random_close": random_close,
             "closed": {s: bool(q and q["q"]["closed"]) for s, q in (("l", ql), ("r", qr))},
             "errcb": {s: [e for _, e in S.errcb[s]] for s in ("l", "r")},
             "read": {s: len(S.read[s]) for s in ("l", "r")}, "sent": {s: len(S.sent[s]) for s in ("l", "r")},
             "mss_min": S.mss_min}
    return S


def c09_bound(c):
    """completion bound after healing (ms).  What the code guarantees: once everything queued has been transmitted (the
    FIN/RST flush transmits the whole queue at once) lost segments are recovered by the retransmission timer only, ONE
    segment per expiry, and the timer may sit at its ceiling MAX_RTO (the RTT estimator decays slowly); a peer that is
    already gone (pre-FIN-ACK close, or a lost final ACK) is detected after at most 30 expiries (`transmit` gives up).
    Hence (outstanding segments + 30 + a few timer periods for handshake/close in both directions) x MAX_RTO, plus the
    15 s zero-window give-up.  Outstanding segments <= data / smallest MSS used in the run."""
    data = c["want"]["l"] + c["want"]["r"]
    segs = data // max(c["mss_min"], 1) + 2
    return MAX_RTO * (segs + 36) + 15000


def oracle_c09(S):
    """every healed run ends with all data read and both sockets closed, or with an error callback, within the bound"""
    c = getattr(S, "c09", None)
    if not c or not c.get("healed"):
        return None
    if c.get("stall_only") is not None and any(c["errcb"].values()) and \
            (c["read"]["r"] != c["sent"]["l"] or c["todo"]["l"] != 0):
        # (a reset reported to one side during the closing handshake, after every byte was delivered, is the accepted
        #  error-closure outcome of the general case; here the transfer itself was cut short)
        tag = "[zero-window-persist-abort] " if c["stall_only"] >= 31000 and "ECONNABORTED" in c["errcb"]["l"] else ""
        return (f"{tag}error closure {c['errcb']} cut the transfer short on a network that never lost a segment: the reader only stalled for "
                f"{c['stall_only']} ms (receive window closed for a while) and then kept reading (read={c['read']}, "
                f"sent={c['sent']}, never accepted={c['todo']})")
    if c.get("lossfree") and (any(c["errcb"].values()) or c["end"] not in ("done", "op-cap", "step-cap") or c["elapsed"] > 300000):
        return (f"FIN-ACK support (l, r) = {c['lossfree']}, a network that never lost or delayed a segment, a reader that kept reading and "
                f"two graceful closes: end={c['end']} after {c['elapsed']} ms with errors {c['errcb']} (closed={c['closed']}, read={c['read']}, "
                f"sent={c['sent']}); such a run completes without error within a few timer periods (the slowest of 200 reference runs took 78 s)")
    if c.get("noack_close") and not any(c["errcb"].values()) and c["read"]["r"] != c["sent"]["l"]:
        return (f"graceful close without FIN-ACK dropped data: the writer's send() accepted {c['sent']['l']} bytes, closed gracefully, "
                f"no error was reported, yet only {c['read']['r']} bytes ever became readable (reader stalled {c['stall_only']} ms)")
    if c["end"] in ("op-cap", "step-cap"):
        # the driver's own operation budget ran out before the (virtual-time) bound of the property: inconclusive, not a
        # violation — e.g. two sockets that both miss data exchange duplicate ACKs for as long as the zero-latency network
        # delivers them, which eats operations without advancing the clock.  Counted in the evidence.
        S.inconclusive = c["end"]
        return None
    if c["end"] != "done":
        return f"no completion and no error closure after healing: end={c['end']} after {c['steps']} steps / {c['elapsed']} ms " \
               f"(closed={c['closed']}, errors={c['errcb']}, read={c['read']}, sent={c['sent']})"
    if not any(c["errcb"].values()) and not c["random_close"]:
        for a, b in (("l", "r"), ("r", "l")):
            if c["read"][b] != c["sent"][a] or c["todo"][a] != 0:
                return f"both sockets closed without error but {b} read {c['read'][b]} of the {c['sent'][a]} bytes accepted from {a} " \
                       f"({c['todo'][a]} never accepted)"
    if c["elapsed"] > c09_bound(c):
        return f"completion took {c['elapsed']} ms after healing, bound is {c09_bound(c)} ms"
    return None


# --------------------------------------------------------------------------- corpus scripts
def run_script(live, lines, rng):
    """corpus files may contain `@` directives that need the packets the real code emits:
       @deliver <s> [i]   deliver the i-th in-flight packet to <s> (default: the oldest)
       @dup <s> [i]       deliver it but keep it in flight          @drop <s> [i]   lose it
       @flush             deliver everything in order until the network is quiet
       @tick <s>          get_next_clock, advance the clock to the deadline, notify_clock
       @heal [max_ms]     loss-free suffix of a C09 run (readers read, clocks tick, applications close)
       @stall-session <ms> k=v ...  (only line) a loss-free run whose reader stalls for <ms> (c09_stall_session)
    Every other line is an op.  Returns the Sess (ops = the concrete operations executed)."""
    if lines and lines[0].startswith("@stall-session"):
        # @stall-session <ms> k=v ...   a whole c09_stall_session with these socket parameters (rng seeded by the file name)
        import random
        w = lines[0].split()      # the directive line (with its `seed=` field) seeds the run: the witness does not depend on VERIF_SEED
        return c09_stall_session(live, random.Random(lines[0]), int(w[1]),
                                 params={k: int(v) for k, v in (x.split("=") for x in w[2:]) if k != "seed"})
    S = Sess(live, rng)
    for line in lines:
        if not S.alive():
            break
        w = line.split()
        if w[0] == "@deliver" or w[0] == "@dup":
            i = int(w[2]) if len(w) > 2 else 0
            if i < len(S.net[w[1]]):
                S.deliver(w[1], i, keep=w[0] == "@dup")
        elif w[0] == "@drop":
            i = int(w[2]) if len(w) > 2 else 0
            if i < len(S.net[w[1]]):
                del S.net[w[1]][i]
        elif w[0] == "@flush":
            flush_net(S, rng)
        elif w[0] == "@tick":
            tick(S, w[1], rng)
        elif w[0] == "@heal":
            c09_heal(S, rng, {"l": 0, "r": 0}, {"l": len(S.sent["l"]), "r": len(S.sent["r"])})
        elif len(w) >= 3 and w[0] == "ptcp" and w[1] == "t":
            S.t(int(w[2]))
        elif len(w) >= 3 and w[0] == "ptcp" and w[2] in ("l", "r"):
            s = w[2]
            if w[1] == "new":
                kv = dict(x.split("=") for x in w[4:])
                S.new(s, int(w[3]), int(kv["finack"]), int(kv["rcvbuf"]), int(kv["sndbuf"]), int(kv["nodelay"]), int(kv["ackdelay"]))
            elif w[1] == "sendp":
                S.send(s, int(w[3]), int(w[4]))
            elif w[1] == "recv":
                S.recv(s, int(w[3]))
            elif w[1] == "shut":
                S.shut(s, w[3])
            elif w[1] == "close":
                S.close(s, int(w[3]))
            elif w[1] == "q":
                S.q(s)
            elif w[1] == "next":
                S.next(s)
            else:
                S.sockop(s, line)
        else:
            S.raw(line)
    S._st_before = st_before(S)
    return S


def run_corpus_scripts(exe, corpus, seed=0):
    """corpus entries (name, lines) -> [(name, Sess)], each on a fresh harness process"""
    import random
    out = []
    for name, lines in corpus:
        live = Live(exe)
        try:
            out.append((name, run_script(live, lines, random.Random(f"{name}/{seed}"))))
        finally:
            live.close()
    return out
