"""C17 — Stream-based socket layers are independent of how TCP segments the bytes.

Sessions drive the REAL layer code (harness/sock_drv.c) and the Lean model (Nice/Drv/Sock.lean) with
the same lines.  A *group* is one (layer configuration, input stream) pair delivered under several
segmentations; the implementation-side oracle compares, for every segmentation, the delivered
messages, the outcome and the bytes written downward with the expectation of an independent
reference decoder (written here, in Python) and with the one-shot delivery.  Send-side sessions
check that the bytes the kernel accepted are a prefix of the concatenation of the accepted frames.
Deviations that fall in a class recorded in KNOWN_FINDINGS.jsonl are reported as KNOWN-FINDING and
do not fail the run; every other deviation is a VIOLATION."""
import json, os, re, itertools
from concurrent.futures import ThreadPoolExecutor
from lib import vlib
from checks.common import conclude

MODULE = "Nice.Props.C17"
THEOREMS = [f"Nice.Props.C17.{t}" for t in (
    "C17_turntcp_split_independent", "C17_turntcp_no_fault",
    "C17_rfc4571_split_independent", "C17_rfc4571_delivers_frames", "C17_rfc4571_no_fault", "C17_rfc4571_send_frames",
    "C17_socks5_split_dependent", "C17_socks5_whole_replies_partial", "C17_socks5_tunnel_identity",
    "C17_pseudossl_split_dependent", "C17_pseudossl_whole_hello_partial", "C17_pseudossl_tunnel_identity",
    "C17_http_split_dependent", "C17_http_payload_lost", "C17_http_tunnel_identity", "C17_http_no_fault_step",
    "C17_frames_contiguous", "C17_flush_contiguous")]
TRUSTED = [
    "Lean 4 kernel; axioms propext, Classical.choice, Quot.sound only (audited every run)",
    "hand-written models Nice/Model/{SockBase,TurnTcp,Http,Socks5,PseudoSsl,Rfc4571,SendQueue}.lean, tied line by line to the "
    "real code by the sock_drv differential stream (scripted base socket mirroring tcp-bsd.c over a kernel buffer; real tcp-bsd "
    "over a socketpair with an interposed sendmsg; real NiceAgent/component for the RFC 4571 paths)",
    "kernel semantics of recvmsg on a stream socket (zero-capacity read: EAGAIN on an empty queue, 0 otherwise) — probed on "
    "Linux for AF_UNIX and TCP and exercised through `sock base real`",
    "indeterminate memory is given fixed values in the harness build only: automatic variables 0xAA "
    "(-ftrivial-auto-var-init=pattern), heap 0xBE (ASan malloc fill)",
    "frames that pass the STUN length test are routed to conn_check_handle_inbound_stun (C03-C06); the generators keep RFC 4571 "
    "payloads out of that class, the model abstracts it as `handled`",
    "constants 65536 (recv_buf), 0xF800 (packet split), 1024 (initial ring), 65537 (rfc4571_buffer) are literals in the C source: "
    "tied by the boundary cases of the differential stream, not regenerated",
]
EXTRA = ("-ftrivial-auto-var-init=pattern", "-I" + os.path.join(vlib.MESON, "agent"))

HELLO = {
    "google": bytes.fromhex(
        "16030100 4a020000 46030142 8545a727 a95da0b3 c5e753da 482b3fc6 5aca89c1 5852a178 3c5b1746"
        "00853f20 0ed30672 5b5b1b5f 15ac13f9 88539d9b e83d7b0c 30326e38 4da27557 416c345c 000400".replace(" ", "")),
    "msoc": bytes.fromhex("16030100 4e020000 460301".replace(" ", "")) + bytes(32) + b"\x20" + bytes(32) +
            bytes.fromhex("00 18 00 0e 00 00 00".replace(" ", "")),
}


def hx(b):
    return b.hex() if b else "-"


# --------------------------------------------------------------------------- reference decoders
def ref_turntcp(mode, s):
    """independent framing decoder.  Returns (messages, status, None) where status is 'ok' (stream
    ends between or inside frames) or 'error' (a correct decoder must refuse).  A frame without payload is
    a frame like any other (an empty GOOGLE frame carries nothing and is not handed up)."""
    msgs, i = [], 0
    if mode == "msn":
        return [], "error", None
    while True:
        if mode in ("rfc5766", "draft9"):
            if len(s) - i < 4:
                return msgs, "ok", None
            magic, plen = int.from_bytes(s[i:i + 2], "big"), int.from_bytes(s[i + 2:i + 4], "big")
            exp = (20 if magic < 0x4000 else 4) + plen
            tot = exp + (-exp % 4)
            if tot > 65536:
                return msgs, "error", None
            if len(s) - i < tot:
                return msgs, "ok", None
            msgs.append(s[i:i + tot]); i += tot
        elif mode == "google":
            if len(s) - i < 2:
                return msgs, "ok", None
            L = int.from_bytes(s[i:i + 2], "big")
            if len(s) - i < 2 + L:
                return msgs, "ok", None
            if L:
                msgs.append(s[i + 2:i + 2 + L])
            i += 2 + L
        else:  # oc2007
            if len(s) - i < 4:
                return msgs, "ok", None
            if s[i] not in (2, 3):
                return msgs, "error", None
            L = int.from_bytes(s[i + 2:i + 4], "big")
            if L + 2 > 65536:
                return msgs, "error", None
            if len(s) - i < 4 + L:
                return msgs, "ok", None
            msgs.append(s[i + 2:i + 4 + L]); i += 4 + L


def ref_rfc4571(s):
    msgs, i = [], 0
    while len(s) - i >= 2:
        L = int.from_bytes(s[i:i + 2], "big")
        if len(s) - i < 2 + L:
            break
        if L:
            msgs.append(s[i + 2:i + 2 + L])
        i += 2 + L
    return msgs


def ref_socks5(s, creds):
    """ideal SOCKS5 client (buffers partial replies).  Returns dict(ranges, outcome, payload_off)"""
    rng = []
    if len(s) < 2:
        return {"ranges": [(0, len(s))] if s else [], "outcome": "incomplete", "off": len(s)}
    rng.append((0, 2))
    i = 2
    if s[0] != 5:
        return {"ranges": rng, "outcome": "error", "off": i}
    if s[1] == 2:
        if not creds or creds == "toolong":
            return {"ranges": rng, "outcome": "error", "off": i}
        if len(s) < 4:
            return {"ranges": rng + ([(2, len(s))] if len(s) > 2 else []), "outcome": "incomplete", "off": len(s)}
        rng.append((2, 4)); i = 4
        if s[2] != 1 or s[3] != 0:
            return {"ranges": rng, "outcome": "error", "off": i}
    elif s[1] != 0:
        return {"ranges": rng, "outcome": "error", "off": i}
    if len(s) < i + 4:
        return {"ranges": rng + ([(i, len(s))] if len(s) > i else []), "outcome": "incomplete", "off": len(s)}
    h = s[i:i + 4]
    if h[0] != 5 or h[1] != 0 or h[2] != 0 or h[3] not in (1, 4):
        rng.append((i, i + 4))
        return {"ranges": rng, "outcome": "error", "off": i + 4}
    n = 4 + (6 if h[3] == 1 else 18)
    if len(s) < i + n:
        return {"ranges": rng + [(i, len(s))], "outcome": "incomplete", "off": len(s)}
    rng.append((i, i + n))
    return {"ranges": rng, "outcome": "connected", "off": i + n}


def ref_http(s):
    """decoder for replies built by gen_http_reply (not for arbitrary garbage): returns
    dict(outcome, off, cl_spans, hdr_end) or None when the reply is outside the generator grammar"""
    m = re.match(rb" *HTTP/1\.[01] +(\d\d\d)[^\r\n]*\r\n", s)
    if not m:
        return None
    if m.group(1)[0:1] != b"2":
        return {"outcome": "error", "off": m.end(), "cl_spans": [], "hdr_end": m.end()}
    i, cl, spans = m.end(), 0, []
    while True:
        j = s.find(b"\r\n", i)
        if j < 0:
            return {"outcome": "incomplete", "off": len(s), "cl_spans": spans, "hdr_end": None}
        line = s[i:j]
        if j == i:
            i = j + 2
            break
        mm = re.match(rb"(?i)content-length: *(\d+)$", line)
        if mm:
            cl = int(mm.group(1))
            spans.append((i + mm.start(1), j))
        elif line.lower().startswith(b"content-length:"):
            return None
        i = j + 2
    hdr_end = i
    if len(s) - i < cl:
        return {"outcome": "incomplete", "off": len(s), "cl_spans": spans, "hdr_end": hdr_end}
    return {"outcome": "connected", "off": i + cl, "cl_spans": spans, "hdr_end": hdr_end}


# --------------------------------------------------------------------------- generators
def rbytes(rng, n, first_hi=False):
    b = bytearray(rng.randbytes(n))
    if first_hi and n:
        b[0] |= 0x40
    return bytes(b)


def gen_turntcp_stream(rng, mode, maxlen, big=False):
    """frames from a grammar: valid data/STUN frames, padding cases, zero length, maximum length,
    bad type, truncated tail, garbage"""
    out = bytearray()
    kinds = []
    while len(out) < maxlen:
        k = rng.choices(["data", "stun", "zero", "max", "bad", "garbage", "trunc"],
                        [50, 20, 4, 3, 4, 3, 6])[0]
        if big and k in ("data", "stun") and rng.random() < 0.3:
            L = rng.choice([65535, 65532, 65516, 65515, 65514, 65513, 65512, 40000, 1024, 1500])
        else:
            L = rng.choice([0, 1, 2, 3, 4, 5, 7, 8, 11, 12, 16, 20, 33]) if k != "zero" else 0
        if k == "zero":
            L = 0
        if mode in ("rfc5766", "draft9"):
            if k == "stun":
                f = bytes([rng.randrange(0, 0x40), rng.getrandbits(8)]) + L.to_bytes(2, "big") + rbytes(rng, 16 + L)
            elif k == "max":
                f = bytes([rng.choice([0, 0x40, 0x3f, 0xff]), 1]) + rng.choice([0xffff, 0xfffd, 0xffec, 0xffed, 0xfffc]).to_bytes(2, "big")
            elif k == "garbage":
                f = rbytes(rng, rng.randrange(1, 9))
            else:
                f = bytes([0x40 | rng.randrange(0, 0x40) if rng.random() < .8 else 0xff, rng.getrandbits(8)]) + L.to_bytes(2, "big") + rbytes(rng, L)
            if k != "garbage" and k != "max":
                pad = -len(f) % 4
                if rng.random() < 0.9:
                    f += bytes(pad) if rng.random() < .5 else rbytes(rng, pad)
        elif mode == "google":
            if k == "max":
                f = b"\xff\xff" + rbytes(rng, 10)
            elif k == "garbage":
                f = rbytes(rng, rng.randrange(1, 6))
            else:
                f = L.to_bytes(2, "big") + rbytes(rng, L)
        else:  # oc2007 / msn
            if k == "max":
                f = bytes([rng.choice([2, 3]), 0]) + rng.choice([0xffff, 0xfffe, 0xfffd]).to_bytes(2, "big") + rbytes(rng, 8)
            elif k == "bad":
                f = bytes([rng.choice([0, 1, 4, 0xff]), 0]) + L.to_bytes(2, "big") + rbytes(rng, L)
            elif k == "garbage":
                f = rbytes(rng, rng.randrange(1, 6))
            else:
                f = bytes([rng.choice([2, 3]), rng.getrandbits(8) if rng.random() < .2 else 0]) + L.to_bytes(2, "big") + rbytes(rng, L)
        if k == "trunc" and len(f) > 1:
            f = f[:rng.randrange(1, len(f))]
        kinds.append(k)
        out += f
        if k in ("trunc",):
            break
    return bytes(out[:max(maxlen, 1)]) if not big else bytes(out), kinds


def gen_rfc4571_stream(rng, maxlen, big=False):
    out = bytearray()
    while len(out) < maxlen:
        if big and rng.random() < 0.25:
            L = rng.choice([65535, 65534, 65533, 40000, 32768, 1500, 1024])
        else:
            L = rng.choice([0, 1, 1, 2, 3, 4, 5, 8, 13, 19, 20, 21, 40])
        out += L.to_bytes(2, "big") + rbytes(rng, L, first_hi=True)
        if rng.random() < 0.05:
            break
    if not big:
        out = out[:maxlen]
    elif rng.random() < 0.3:
        out = out[:rng.randrange(1, len(out) + 1)]
    return bytes(out)


def gen_http_reply(rng, long_headers=False):
    """returns (reply bytes, kind)"""
    kind = rng.choices(["ok", "ok-cl", "status-err", "garbage", "bad-cl", "trunc"], [40, 30, 10, 6, 6, 8])[0]
    sp = " " * rng.choice([1, 1, 1, 2, 3])
    lead = " " * rng.choice([0, 0, 0, 1, 2])
    ver = rng.choice(["1.0", "1.1"])
    code = rng.choice(["200", "200", "204", "299", "250"]) if kind != "status-err" else \
        rng.choice(["100", "301", "403", "407", "500", "2x0", "20", "abc"])
    reason = rng.choice(["OK", "Connection established", "", "x" * rng.randrange(0, 30)])
    line = f"{lead}HTTP/{ver}{sp}{code} {reason}\r\n"
    if kind == "garbage":
        return rng.choice([b"HTTX/1.0 200 OK\r\n\r\n", b"\r\n\r\n", b"HTTP/2.0 200 OK\r\n\r\n", b"HTTP/1.0200 OK\r\n\r\n",
                           rbytes(rng, rng.randrange(1, 30)), b"HTTP/1.1\t200 OK\r\n\r\n"]), kind
    hdrs = []
    for _ in range(rng.choice([0, 0, 1, 2, 3, 5])):
        name = rng.choice(["Server", "Date", "Via", "X-Cache", "Proxy-Agent", "Content-Type", "Content-Lengthy",
                           "Content-Len", "Connection", "C"])
        val = "".join(rng.choice("abcdefghijklmnopqrstuvwxyz0123456789 /;=,.") for _ in range(rng.choice([0, 1, 5, 12, 30])))
        hdrs.append(f"{name}: {val}\r\n")
    if long_headers:
        n = rng.choice([900, 1000, 1010, 1023, 1024, 1030, 1100, 2100, 3000])
        hdrs.insert(rng.randrange(0, len(hdrs) + 1), "X-Pad: " + "p" * n + "\r\n")
    body = b""
    if kind in ("ok-cl", "bad-cl"):
        n = rng.choice([0, 0, 1, 2, 5, 10, 37, 100])
        nm = rng.choice(["Content-Length", "content-length", "CONTENT-LENGTH", "Content-length", "cONTENT-lENGTH"])
        if kind == "bad-cl":
            v = rng.choice(["x", "12a", "-1", "1 2", "99999999999999999999999", "18446744073709551616", ""])
            hdrs.insert(rng.randrange(0, len(hdrs) + 1), f"{nm}:{' ' * rng.choice([0, 1, 2])}{v}\r\n")
        else:
            z = "0" * rng.choice([0, 0, 0, 1, 3])
            hdrs.insert(rng.randrange(0, len(hdrs) + 1), f"{nm}:{' ' * rng.choice([0, 1, 1, 3])}{z}{n}\r\n")
            body = rbytes(rng, n)
    r = (line + "".join(hdrs) + "\r\n").encode() + body
    if kind == "trunc":
        r = r[:rng.randrange(1, len(r))]
    return r, kind


def gen_socks5_reply(rng, creds):
    """returns (bytes, kind)"""
    kind = rng.choices(["ok", "method-err", "auth-err", "connect-err", "garbage", "trunc"], [50, 10, 10, 15, 5, 10])[0]
    out = bytearray()
    if kind == "garbage":
        return rbytes(rng, rng.randrange(1, 20)), kind
    want_auth = rng.random() < (0.6 if creds else 0.15)
    if kind == "method-err":
        out += rng.choice([b"\x05\xff", b"\x05\x01", b"\x04\x00", b"\x00\x00", b"\x05\x03"])
        return bytes(out) + rbytes(rng, rng.randrange(0, 6)), kind
    out += b"\x05\x02" if want_auth else b"\x05\x00"
    if want_auth:
        if kind == "auth-err":
            out += rng.choice([b"\x01\x01", b"\x01\xff", b"\x05\x00", b"\x00\x00"])
            return bytes(out) + rbytes(rng, rng.randrange(0, 6)), kind
        out += b"\x01\x00"
    if kind == "connect-err":
        rep = rng.choice([bytes([5, c, 0, 1]) for c in range(1, 10)] + [b"\x05\xff\x00\x01", b"\x04\x00\x00\x01",
                         b"\x05\x00\x01\x01", b"\x05\x00\x00\x03", b"\x05\x00\x00\x02", b"\x05\x00\x00\x00"])
        out += rep + (bytes([5]) + b"hello" + b"\x00\x50" if rep[3] == 3 else rbytes(rng, rng.choice([0, 6, 18])))
        return bytes(out), kind
    if rng.random() < 0.6:
        out += b"\x05\x00\x00\x01" + rbytes(rng, 6)
    else:
        out += b"\x05\x00\x00\x04" + rbytes(rng, 18)
    if kind == "trunc":
        out = out[:rng.randrange(1, len(out))]
    return bytes(out), kind


def gen_pssl_reply(rng, compat):
    kind = rng.choices(["ok", "flip", "trunc", "garbage", "other"], [60, 12, 12, 6, 10])[0]
    h = bytearray(HELLO[compat])
    if compat == "msoc" and rng.random() < 0.8:
        h[11:43] = rbytes(rng, 32); h[44:76] = rbytes(rng, 32)
    if kind == "flip":
        if compat == "msoc":
            i = rng.choice(list(range(0, 11)) + [43] + list(range(76, len(h))))
        else:
            i = rng.randrange(len(h))
        h[i] ^= 1 << rng.randrange(8)
    elif kind == "trunc":
        h = h[:rng.randrange(1, len(h))]
    elif kind == "garbage":
        h = bytearray(rbytes(rng, rng.randrange(1, 100)))
    elif kind == "other":
        h = bytearray(HELLO["google" if compat == "msoc" else "msoc"])
    return bytes(h), kind


def all_cutsets(lo, hi):
    """all subsets of cut positions lo+1 .. hi-1"""
    pos = list(range(lo + 1, hi))
    for m in range(1 << len(pos)):
        yield [p for k, p in enumerate(pos) if m >> k & 1]


def rand_cuts(rng, n, style):
    if n <= 1:
        return []
    if style == "bytes":
        return list(range(1, n))
    if style == "few":
        k = rng.randrange(1, 4)
    elif style == "many":
        k = rng.randrange(4, max(5, min(n, 200)))
    else:
        k = rng.randrange(1, max(2, min(n, 40)))
    return sorted(set(rng.randrange(1, n) for _ in range(k)))


def chunks_of(s, cuts):
    pts = [0] + list(cuts) + [len(s)]
    return [s[a:b] for a, b in zip(pts, pts[1:]) if b > a]


# --------------------------------------------------------------------------- groups
class Group:
    """one stream under several segmentations"""
    def __init__(self, layer, new, stream, cutsets, pre=(), post=(), info=None, real=False, tag=""):
        self.layer, self.new, self.stream, self.cutsets = layer, new, stream, cutsets
        self.pre, self.post, self.info, self.real, self.tag = list(pre), list(post), info or {}, real, tag

    def session(self, cuts):
        L = (["sock base real"] if self.real else []) + [self.new] + self.pre
        L += [f"sock feed {hx(c)}" for c in chunks_of(self.stream, cuts)]
        return L + self.post


def recv_groups(tier, rng):
    G = []
    quick = tier == "quick"
    nsmall = 12 if quick else 18
    modes = ["rfc5766", "draft9", "google", "oc2007", "msn"]
    # ---- framing layers: ALL 2^(n-1) segmentations of short streams
    if quick:
        plan = [("rfc5766", 12), ("rfc5766", 9), ("google", 12), ("google", 8), ("oc2007", 12), ("oc2007", 10),
                ("draft9", 10), ("msn", 6)]
        plan4571 = [12, 11, 9, 7]
    else:
        plan = [("rfc5766", 18), ("rfc5766", 15), ("rfc5766", 13), ("google", 16), ("google", 14), ("google", 11),
                ("oc2007", 16), ("oc2007", 14), ("oc2007", 12), ("draft9", 16), ("draft9", 12), ("msn", 8)]
        plan4571 = [18, 16, 14, 13, 11]
    for mode, n in plan:
        s = b""
        while len(s) < n:
            s, kinds = gen_turntcp_stream(rng, mode, n)
        s = s[:n]
        G.append(Group("turntcp", f"sock new turntcp {mode}", s, list(all_cutsets(0, len(s))), info={"mode": mode}, tag="exh"))
    # hand-picked short streams (zero-length frames, padding, exact boundaries, maximum length headers)
    picked = [("rfc5766", "40000001aa000000" "4001"), ("rfc5766", "4000000040000002bbcc0000"), ("rfc5766", "40000004aabbccdd40"),
              ("google", "0001aa0002bbcc0000"), ("google", "00000001aa"), ("oc2007", "03000001aa02000002bbcc"),
              ("oc2007", "0200000003000001aa"), ("oc2007", "0400000100"), ("rfc5766", "0001ffff00000000"),
              ("draft9", "4000fffd00004000"), ("oc2007", "0200fffe0000"), ("google", "ffff0102")]
    for mode, h in picked:
        s = bytes.fromhex(h)
        G.append(Group("turntcp", f"sock new turntcp {mode}", s, list(all_cutsets(0, len(s))), info={"mode": mode}, tag="exh"))
    for n in plan4571:
        s = b""
        while len(s) < n:
            s = gen_rfc4571_stream(rng, n)
        s = s[:n]
        G.append(Group("rfc4571", "sock new rfc4571", s, list(all_cutsets(0, len(s))), tag="exh"))
    for h in ("0001410000000242430001", "000000000001410002", "00024142000343", "ffff4142"):
        s = bytes.fromhex(h)
        G.append(Group("rfc4571", "sock new rfc4571", s, list(all_cutsets(0, len(s))), tag="exh"))
    # ---- framing layers: random segmentations of longer streams (up to 200 KiB)
    nlong = 60 if quick else 500
    for i in range(nlong):
        mode = rng.choice(modes[:4]) if rng.random() < .97 else "msn"
        big = ((not quick) and rng.random() < 0.08) or (quick and i < 3)
        s, kinds = gen_turntcp_stream(rng, mode, rng.choice([30, 80, 200, 600]) if not big else rng.choice([70000, 200000]), big=big)
        s = s[:204800]
        cs = [[]] + [rand_cuts(rng, len(s), st) for st in ("few", "some", "many")] + ([list(range(1, len(s)))] if len(s) < 300 else [])
        G.append(Group("turntcp", f"sock new turntcp {mode}", s, cs, info={"mode": mode}, real=(rng.random() < 0.15 and not big), tag="rand"))
    for i in range(nlong):
        big = ((not quick) and rng.random() < 0.08) or (quick and i < 2)
        s = gen_rfc4571_stream(rng, rng.choice([30, 80, 200, 600]) if not big else rng.choice([70000, 200000]), big=big)
        s = s[:204800]
        cs = [[]] + [rand_cuts(rng, len(s), st) for st in ("few", "some", "many")] + ([list(range(1, len(s)))] if len(s) < 300 else [])
        G.append(Group("rfc4571", "sock new rfc4571", s, cs, tag="rand"))
    # ---- handshake layers: reply grammar x payload; `tail` payload bytes are segmented exhaustively
    nh = 40 if quick else 250
    for i in range(nh):
        if quick:
            tail = 12 if i < 2 else (8 if i < 6 else 0)
        else:
            tail = 18 if i == 0 else (14 if i < 4 else (10 if i < 12 else 0))
        force_ok = i < 6
        # SOCKS5
        creds = rng.choice([None, None, ("75", "70"), ("757365726e616d65", "-"), ("-", "7077"), ("0", "0"), "toolong"])
        if creds == "toolong":
            new = f"sock new socks5 {'61' * 256} 70 v4"
        elif creds:
            new = f"sock new socks5 {creds[0]} {creds[1]} {rng.choice(['v4', 'v6'])}"
        else:
            new = f"sock new socks5 - - {rng.choice(['v4', 'v6'])}"
        rep, kind = gen_socks5_reply(rng, creds)
        while force_ok and (kind != "ok" or creds == "toolong"):
            creds = rng.choice([None, ("75", "70")])
            new = f"sock new socks5 {creds[0] if creds else '-'} {creds[1] if creds else '-'} v4"
            rep, kind = gen_socks5_reply(rng, creds)
        payload = rbytes(rng, max(tail, rng.choice([0, 1, 3, 8, nsmall, 40, 300])))
        G.append(handshake_group(rng, "socks5", new, rep, payload, {"creds": creds, "kind": kind}, tail, quick and i > 6))
        # pseudo-SSL
        compat = rng.choice(["google", "msoc"])
        rep, kind = gen_pssl_reply(rng, compat)
        while force_ok and kind != "ok":
            rep, kind = gen_pssl_reply(rng, compat)
        payload = rbytes(rng, max(tail, rng.choice([0, 1, 3, 8, nsmall, 40, 300])))
        G.append(handshake_group(rng, "pseudossl", f"sock new pseudossl {compat}", rep, payload, {"compat": compat, "kind": kind}, tail, quick and i > 4))
        # HTTP
        rep, kind = gen_http_reply(rng, long_headers=(rng.random() < 0.12))
        while force_ok and kind not in ("ok", "ok-cl"):
            rep, kind = gen_http_reply(rng)
        up = rng.choice([("-", "-"), ("75", "7077"), ("75736572", "-"), ("0", "0")])
        payload = rbytes(rng, max(tail, rng.choice([0, 1, 3, 8, nsmall, 40, 300, 2000])))
        G.append(handshake_group(rng, "http", f"sock new http {up[0]} {up[1]} {rng.choice(['v4', 'v6'])}", rep, payload, {"kind": kind}, tail, quick and i > 6))
    if not quick:
        # tunnelled payload up to 200 KiB after a successful handshake
        for layer in ("socks5", "pseudossl", "http"):
            for _ in range(3):
                payload = rbytes(rng, rng.choice([70000, 204800 - 200]))
                info = {"kind": "ok"}
                if layer == "socks5":
                    new, rep = "sock new socks5 - - v4", b"\x05\x00\x05\x00\x00\x01" + bytes(6)
                    info["creds"] = None
                elif layer == "pseudossl":
                    new, rep = "sock new pseudossl google", HELLO["google"]
                    info["compat"] = "google"
                else:
                    new, rep = "sock new http - - v4", b"HTTP/1.0 200 OK\r\n\r\n"
                G.append(handshake_group(rng, layer, new, rep, payload, info, 0, True))
    return G


def handshake_group(rng, layer, new, rep, payload, info, tail, light):
    s = rep + payload
    H = len(rep)
    pre = []
    if rng.random() < 0.4:
        pre = [f"sock sendr {hx(rbytes(rng, rng.choice([1, 5, 20])))}" + ("," + hx(rbytes(rng, 3)) if rng.random() < .3 else "")
               for _ in range(rng.choice([1, 2]))]
        if rng.random() < 0.3:
            pre.append(f"sock send {hx(rbytes(rng, 4))}")
    post = [f"sock send {hx(rbytes(rng, 5))}", f"sock sendr {hx(rbytes(rng, 2))},{hx(rbytes(rng, 2))}"] if rng.random() < .5 else []
    cs = [[]]
    # (a) reply delivered whole, EVERY segmentation of the first `tail` bytes of the payload
    t = min(len(payload), tail)
    if t and H:
        for c in all_cutsets(H, H + t):
            cs.append([H] + c + ([H + t] if H + t < len(s) else []))
    elif H and payload:
        t2 = min(len(payload), 12)
        for _ in range(6):
            cs.append([H] + rand_cuts_in(rng, H, H + t2))
    # (b) cuts at reply boundaries only + random in the payload
    info = dict(info, H=H)
    ranges = reply_ranges(layer, s, info)
    bnds = sorted({e for (a, e) in ranges if 0 < e < len(s)})
    for _ in range(3):
        c = set(b for b in bnds if rng.random() < 0.7)
        c |= set(x for x in rand_cuts(rng, len(s), "some") if x > H)
        cs.append(sorted(c))
    # (c) arbitrary cuts (known-finding territory for SOCKS5 / pseudo-SSL / HTTP special cases)
    for st in ("few", "some", "many"):
        cs.append(rand_cuts(rng, len(s), st))
    if len(s) < 400:
        cs.append(list(range(1, len(s))))
    if H <= 14 and not light and len(s) < 1000:
        cs += list(all_cutsets(0, min(len(s), H + 2, 13)))
    uniq, seen = [], set()
    for c in cs:
        c = tuple(x for x in c if 0 < x < len(s))
        if c not in seen:
            seen.add(c); uniq.append(list(c))
    return Group(layer, new, s, uniq, pre=pre, post=post, info=info, tag="hs")


def rand_cuts_in(rng, lo, hi):
    return sorted(set(rng.randrange(lo + 1, hi) for _ in range(rng.randrange(0, 4)))) if hi - lo > 1 else []


def reply_ranges(layer, s, info):
    if layer == "socks5":
        return ref_socks5(s, info.get("creds"))["ranges"]
    if layer == "pseudossl":
        return [(0, min(len(s), len(HELLO[info["compat"]])))]
    if layer == "http":
        r = ref_http(s)
        return [(0, r["off"])] if r else [(0, info["H"])]
    return []


# --------------------------------------------------------------------------- parsing outputs
LINE = re.compile(r"^ret (\S+) up \[(.*?)\] down \[(.*?)\] state (\S+) base (\S+) pend (\d+)$")


def parse_line(o):
    m = LINE.match(o)
    if not m:
        return None
    rets = [] if m.group(1) == "-" else [int(x) for x in m.group(1).split(",")]
    ups = []
    for u in (m.group(2).split(",") if m.group(2) else []):
        parts = u.split("/")
        data = b"" if parts[0] == "-" else bytes.fromhex(parts[0])
        lost = None
        if len(parts) == 3:
            lost = b"" if parts[2] == "-" else bytes.fromhex(parts[2])
        ups.append((data, lost))
    down = [b"" if d == "-" else bytes.fromhex(d) for d in (m.group(3).split(",") if m.group(3) else [])]
    return {"rets": rets, "ups": ups, "down": down, "state": m.group(4), "base": m.group(5), "pend": int(m.group(6))}


def observe(g, session, out):
    """observable of one run: messages, outcome, down bytes"""
    ups, down, err = [], b"", False
    last = None
    lost = b""
    full = b""
    for line, o in zip(session, out):
        p = parse_line(o)
        if p is None:
            if o in ("ok",):
                continue
            return {"bad": o}
        last = p
        stop = -2 if g.layer == "rfc4571" else -1
        if line.startswith("sock feed") or line.startswith("sock recv"):
            if any(r <= stop for r in p["rets"]):
                err = True
            for d, l in p["ups"]:
                ups.append(d)
                full += d
                if l:
                    lost += l; full += l
        down += b"".join(p["down"])
    st = last["state"] if last else ""
    if g.layer == "turntcp":
        outcome = "error" if err else st
    elif g.layer == "rfc4571":
        m = re.match(r"off=(\d+),fo=(\d+),fs=(\d+),cs=(\d+)", st)
        outcome = "error" if err else f"headroom={int(m.group(1)) - int(m.group(2))},fs={m.group(3)},cs={m.group(4)}"
    elif g.layer == "http":
        outcome = st.split(",")[0]
    elif g.layer == "socks5":
        outcome = st.split(",")[0]
    else:
        outcome = "error" if err else st.split(",")[0]
    framed = g.layer in ("turntcp", "rfc4571")
    return {"ups": ups if framed else b"".join(ups), "outcome": outcome, "down": down, "lost": lost, "full": full}


# --------------------------------------------------------------------------- known finding classes
KF_SOCKS5 = "socks5.c: a SOCKS5 reply cut by a read boundary is parsed from the buffer capacity instead of the received length (handshake fails or mis-parses)"
KF_PSSL = "pseudossl.c: the server hello must arrive in a single read; a hello cut by a read boundary fails the handshake"
KF_HTTP_COAL = "http.c: tunnelled bytes read together with the end of the proxy reply are returned with length 0 (buffers[].size overwritten instead)"
KF_HTTP_CL = "http.c: Content-Length value cut by a read boundary reads one byte past the received data (stale/uninitialised ring byte)"
KF_HTTP_RING = "http.c: reply larger than the 1024-byte ring: g_realloc of a wrapped ring breaks the byte order / stale bytes are parsed"


def known_class(g, cuts, obs, ref):
    s = g.stream
    if g.layer == "socks5":
        for (a, e) in ref_socks5(s, g.info.get("creds"))["ranges"]:
            if any(a < c < e for c in cuts):
                return KF_SOCKS5
        return None
    if g.layer == "pseudossl":
        H = len(HELLO[g.info["compat"]])
        if any(0 < c < min(H, len(s)) for c in cuts) and len(s) >= 1:
            return KF_PSSL
        return None
    if g.layer == "turntcp":
        return None
    if g.layer == "http":
        r = ref_http(s)
        big = g.info.get("H", 0) > 1000      # reads are then also cut by the 1024-byte ring
        if r:
            for (d0, d1) in r["cl_spans"]:
                if any(d0 < c <= d1 for c in cuts) or (d0 < len(s) <= d1) or big:
                    return KF_HTTP_CL
        else:
            # replies outside the reference grammar: bad Content-Length values still contain digit runs
            for m in re.finditer(rb"(?i)content-length: *(\d+)", s):
                if any(m.start(1) < c <= m.end(1) for c in cuts) or big:
                    return KF_HTTP_CL
        # direct evidence in the implementation's own output: bytes were copied into the caller's buffer
        # (buffers[0].size overwritten) but reported with length 0, and that is the only difference
        if (obs["lost"] or ref["lost"]) and obs["full"] == ref["full"] and obs["outcome"] == ref["outcome"] \
                and obs["down"] == ref["down"]:
            return KF_HTTP_COAL
        return None
    return None


def expectation(g):
    """what an ideal, segmentation-independent layer delivers for this stream (None = unknown)"""
    s = g.stream
    if g.layer == "turntcp":
        msgs, status, z = ref_turntcp(g.info["mode"], s)
        return {"ups": msgs, "err": status == "error"}
    if g.layer == "rfc4571":
        return {"ups": ref_rfc4571(s), "err": False}
    if g.layer == "socks5":
        r = ref_socks5(s, g.info.get("creds"))
        if r["outcome"] == "connected":
            return {"ups": s[r["off"]:], "outcome": "connected"}
        if r["outcome"] == "error":
            return {"ups": b"", "outcome": "error"}
        return None
    if g.layer == "pseudossl":
        H = HELLO[g.info["compat"]]
        if len(s) >= len(H):
            ok = s[:len(H)] == H if g.info["compat"] == "google" else \
                (s[:11] == H[:11] and s[43] == H[43] and s[76:len(H)] == H[76:])
            return {"ups": s[len(H):] if ok else b"", "outcome": "hs=1" if ok else "error"}
        return None
    if g.layer == "http":
        r = ref_http(s)
        if r and r["outcome"] == "connected":
            return {"ups": s[r["off"]:], "outcome": "connected"}
        if r and r["outcome"] == "error":
            return {"ups": b"", "outcome": "error"}
        return None
    return None


def judge(g, cuts, obs, ref_obs, exp):
    """returns None (fine) or a reason string"""
    if "bad" in obs:
        return "unparsable output: " + obs["bad"]
    if exp is not None:
        if obs["ups"] != exp["ups"]:
            return "delivered data differs from the reference decoder"
        if "err" in exp and (obs["outcome"] == "error") != exp["err"]:
            return f"outcome {obs['outcome']} but reference decoder says error={exp['err']}"
        if "outcome" in exp and obs["outcome"] != exp["outcome"]:
            return f"outcome {obs['outcome']}, expected {exp['outcome']}"
    for k in ("ups", "outcome", "down"):
        if obs[k] != ref_obs[k]:
            return f"{k} differs from the one-shot delivery"
    return None


# --------------------------------------------------------------------------- send side
def frames_rfc4571(bufs):
    data = b"".join(bufs)
    out, i = b"", 0
    while i < len(data):
        n = min(len(data) - i, 0xF800)
        out += n.to_bytes(2, "big") + data[i:i + n]; i += n
    return out


def send_sessions(tier, rng):
    """returns list of (session, meta) for tcpbsd / rfc4571 / turntcp send paths"""
    S = []
    n = 400 if tier == "quick" else 6000
    for i in range(n):
        layer = rng.choice(["tcpbsd", "tcpbsd", "rfc4571"])
        L = [f"sock new tcpbsd {rng.choice([0, 1])}" if layer == "tcpbsd" else "sock new rfc4571"]
        meta = {"layer": layer, "msgs": []}
        multi = rng.random() < 0.5
        for _ in range(rng.randrange(1, 8)):
            nb = rng.choice([1, 1, 2, 3, 4]) if multi else 1
            bufs = [rbytes(rng, rng.choice([0, 1, 2, 3, 5, 8, 13, 30])) for _ in range(nb)]
            if sum(map(len, bufs)) == 0:
                bufs[0] = b"\x41"
            tot = sum(map(len, bufs)) + (2 if layer == "rfc4571" else 0)
            r = rng.random()
            if r < 0.35:
                acc = [rng.randrange(0, tot + 1)]
            elif r < 0.5:
                acc = [0]
            elif r < 0.6:
                acc = [rng.randrange(0, tot + 2) for _ in range(3)]
            else:
                acc = None
            if acc is not None:
                L.append("sock wrote " + ",".join(map(str, acc)))
            op = "sendr" if (layer == "tcpbsd" and rng.random() < .5) else "send"
            L.append(f"sock {op} " + ",".join(hx(b) for b in bufs))
            if rng.random() < 0.4:
                if rng.random() < 0.5:
                    L.append("sock wrote " + ",".join(str(rng.randrange(0, 12)) for _ in range(rng.randrange(1, 4))))
                L.append("sock writable")
        L += ["sock wrote 1,0", "sock writable", "sock wrote 100000", "sock writable", "sock writable", "sock writable"]
        S.append((L, meta))
    # big messages through the agent split (single buffer, and multi-buffer splits that stay in bounds)
    for i in range(4 if tier == "quick" else 40):
        tot = rng.choice([0xF800, 0xF801, 0xF800 * 2, 0xF800 * 2 + 5, 70000, 130000])
        if rng.random() < 0.5:
            bufs = [rbytes(rng, tot)]
        else:
            k = rng.choice([rng.randrange(1, tot), 0xF900, 0xF800, 0xF7FF, 1])
            k = min(k, tot - 1)
            bufs = [rbytes(rng, k), rbytes(rng, tot - k)]
            if rng.random() < 0.3:
                j = rng.randrange(0, len(bufs[1]) + 1)
                bufs = [bufs[0], bufs[1][:j], bufs[1][j:]]
        L = ["sock new rfc4571"]
        if rng.random() < .5:
            L.append(f"sock wrote {rng.randrange(0, 70000)}")
        L += ["sock send " + ",".join(hx(b) for b in bufs), "sock writable", "sock writable", "sock send 4142", "sock writable"]
        S.append((L, {"layer": "rfc4571"}))
    # turntcp framing on send (scripted base accepts everything)
    for i in range(150 if tier == "quick" else 2000):
        mode = rng.choice(["rfc5766", "draft9", "google", "oc2007", "msn"])
        L = [f"sock new turntcp {mode}"]
        for _ in range(rng.randrange(1, 5)):
            nb = rng.choice([1, 1, 2, 3])
            if mode == "oc2007" and rng.random() < 0.5:
                # STUN-looking message with/without the TURN magic cookie at offset 26, split at random
                m = bytearray(rbytes(rng, rng.choice([30, 31, 34, 40, 60])))
                if rng.random() < .6 and len(m) >= 30:
                    m[26:30] = bytes.fromhex("72c64bc6")
                cut = sorted(set(rng.randrange(0, len(m)) for _ in range(nb - 1)))
                pts = [0] + cut + [len(m)]
                bufs = [bytes(m[a:b]) for a, b in zip(pts, pts[1:])]
            else:
                bufs = [rbytes(rng, rng.choice([0, 1, 2, 3, 4, 5, 8, 13, 30, 100])) for _ in range(nb)]
            L.append(f"sock {rng.choice(['send', 'sendr'])} " + ",".join(hx(b) for b in bufs))
        S.append((L, {"layer": "turntcp", "mode": mode}))
    return S


def turntcp_frame_ref(mode, bufs):
    d = b"".join(bufs)
    if mode in ("rfc5766", "draft9"):
        return d + bytes(-len(d) % 4)
    if mode == "google":
        return (len(d) & 0xffff).to_bytes(2, "big") + d
    if mode == "oc2007":
        # the cookie is only recognised when it lies inside one buffer
        pt = 3
        if (len(d) & 0xffff) > 30:
            off = 0
            for b in bufs:
                if len(b) > 26 - off:
                    if len(b) > 30 - off and b[26 - off:30 - off] == bytes.fromhex("72c64bc6"):
                        pt = 2
                    break
                off += len(b)
        return bytes([pt, 0]) + d
    return d


def judge_send(L, out, meta):
    """prefix / contiguity oracle on the implementation's output.  returns (reason|None, None)"""
    frames, wire = b"", b""
    for line, o in zip(L, out):
        p = parse_line(o)
        if p is None:
            return "unparsable output: " + o, None
        w = line.split()
        if w[1] in ("send", "sendr"):
            bufs = [b"" if h == "-" else bytes.fromhex(h) for h in w[2].split(",")]
            ret = p["rets"][0]
            if meta["layer"] == "turntcp":
                exp = turntcp_frame_ref(meta["mode"], bufs)
                got = b"".join(p["down"])
                if ret >= 0 and got != exp:
                    return f"frame on the wire differs from the reference encoding ({line[:60]})", None
                continue
            if ret >= 1:
                frames += frames_rfc4571(bufs) if meta["layer"] == "rfc4571" else b"".join(bufs)
        wire += b"".join(p["down"])
        if meta["layer"] != "turntcp" and not frames.startswith(wire):
            return f"bytes accepted by the kernel are not a prefix of the accepted frames after `{line[:50]}`", None
    if meta["layer"] != "turntcp" and wire != frames:
        return "accepted frames were not written completely once the socket became writable", None
    return None, None


# --------------------------------------------------------------------------- running
def run_both(exe, sessions, model=True, workers=vlib.NCPU):
    """runs every session on the implementation (and the model); returns (impl_outs, model_outs, stderrs)"""
    n = len(sessions)
    io, mo, errs = [None] * n, [None] * n, {}
    nchunks = max(1, min(workers, n))
    # balance by size
    order = sorted(range(n), key=lambda i: -sum(len(l) for l in sessions[i]))
    chunks = [order[k::nchunks] for k in range(nchunks)]

    def split(out, idxs):
        pos, res = 0, {}
        for i in idxs:
            k = 1 + len(sessions[i])
            if pos + k <= len(out):
                res[i] = out[pos + 1:pos + k]
            pos += k
        return res

    def work(idxs):
        lines = []
        for i in idxs:
            lines.append("reset"); lines += sessions[i]
        o, rc, er = vlib.run_lines(exe, lines, timeout=1500)
        r = split(o, idxs)
        for i in idxs:
            if i in r and (rc == 0 or len(o) == len(lines)):
                io[i] = r[i]
        if len(o) != len(lines):
            for i in idxs:
                if io[i] is None or i not in r:
                    o1, rc1, er1 = vlib.run_lines(exe, ["reset"] + sessions[i], timeout=600)
                    if len(o1) == 1 + len(sessions[i]):
                        io[i] = o1[1:]
                    else:
                        io[i] = None; errs[i] = (o1, rc1, er1)
        if model:
            o, rc, er = vlib.run_lines(vlib.model_exe(), lines, timeout=1500)
            r = split(o, idxs)
            for i in idxs:
                mo[i] = r.get(i)
    with ThreadPoolExecutor(max_workers=nchunks) as ex:
        list(ex.map(work, chunks))
    return io, mo, errs


def load_corpus():
    d = os.path.join(vlib.ROOT, "corpus", "C17")
    out = []
    if os.path.isdir(d):
        for f in sorted(os.listdir(d)):
            if f.endswith(".ops"):
                out.append((f, [l.strip() for l in open(os.path.join(d, f)) if l.strip() and not l.startswith("#")]))
    return out


def split_sessions(lines):
    """a corpus file may hold several sessions separated by `reset`"""
    S, cur = [], []
    for l in lines:
        if l == "reset":
            if cur:
                S.append(cur)
            cur = []
        else:
            cur.append(l)
    if cur:
        S.append(cur)
    return S


def known_records():
    return [r for r in vlib.known_findings() if r.get("property") == "C17" and r.get("status") == "known"]


def run(tier, seed):
    chk = vlib.Check("C17", tier, seed)
    chk.cov["trusted_base"] = TRUSTED
    chk.assumptions = ["layers are driven single-threaded; the layer below is a TCP stream (tcp-bsd.c semantics)",
                       "RFC 4571 payloads that pass the STUN length test are excluded from the generated streams"]
    st = vlib.std_pipeline(chk, MODULE, THEOREMS)
    diverged, ofail = [], []
    if not st["libs"]:
        return conclude(chk, st, diverged, ofail, "sock_drv:sock")
    ok, exe, log = vlib.build_harness("sock_drv", extra=EXTRA, multidef=True)
    if not ok:
        chk.note("harness build failed: " + log[-1500:])
        st["libs"] = False; st["log"] = log
        return conclude(chk, st, diverged, ofail, "sock_drv:sock")
    have_model = os.path.exists(vlib.model_exe())
    known_texts = {r["text"] for r in known_records()}
    known_hits = {}

    def known(text, example):
        known_hits.setdefault(text, []).append(example)

    stats = {"groups": 0, "runs": 0, "by_layer": {}, "outcomes": {}, "known": {}, "exh_groups": 0, "stream_len_max": 0,
             "segmentations_per_group_max": 0}
    distinct = set()
    sstat = {}
    tot = {"sessions": 0, "validated": 0}
    samples = []

    def process(sessions, tags, groups):
        """run one batch on implementation + model, evaluate tie and oracles"""
        io, mo, errs = run_both(exe, sessions, model=have_model)
        tot["sessions"] += len(sessions)
        # ---- correspondence
        for i, s in enumerate(sessions):
            if io[i] is None:
                continue
            if have_model and mo[i] != io[i]:
                k = 0
                a, b = io[i], mo[i] or []
                while k < min(len(a), len(b)) and a[k] == b[k]:
                    k += 1
                if len(diverged) < 50:
                    diverged.append({"session": s[:k + 1] if len(s) < 60 else s[max(0, k - 5):k + 1], "line_no": k,
                                     "op": s[k][:300] if k < len(s) else None, "impl": (a[k] if k < len(a) else "<none>")[:600],
                                     "model": (b[k] if k < len(b) else "<none>")[:600]})
            elif have_model:
                tot["validated"] += 1
        # ---- oracle: crashes
        for i, s in enumerate(sessions):
            if io[i] is None and len(ofail) < 50:
                o1, rc1, er1 = errs.get(i, ([], 0, ""))
                ofail.append({"session": [l[:2000] for l in (s if len(s) < 80 else s[:80])],
                              "why": "implementation crashed / aborted (sanitizer report or signal)",
                              "stderr": er1[-1500:], "impl_out": o1[-3:]})
        # ---- oracle: receive side, group by group
        by_group = {}
        for k, t in enumerate(tags):
            if t[0] == "recv":
                by_group.setdefault(t[1], []).append(k)
        for gi, ks in by_group.items():
            g = groups[gi]
            exp = expectation(g)
            if io[ks[0]] is None:
                continue
            ref_obs = observe(g, sessions[ks[0]], io[ks[0]])
            stats["groups"] += 1
            stats["by_layer"][g.layer] = stats["by_layer"].get(g.layer, 0) + len(ks)
            stats["stream_len_max"] = max(stats["stream_len_max"], len(g.stream))
            stats["segmentations_per_group_max"] = max(stats["segmentations_per_group_max"], len(ks))
            if g.tag == "exh":
                stats["exh_groups"] += 1
            if len(samples) < 3 and len(ks) > 2:
                samples.append([l[:160] for l in sessions[ks[len(ks) // 2]][:6]])
            for k in ks:
                if io[k] is None:
                    continue
                obs = observe(g, sessions[k], io[k])
                stats["runs"] += 1
                cuts = g.cutsets[tags[k][2]]
                key = g.layer + ":" + re.sub(r"\d+", "N", str(obs.get("outcome", "?")))[:24]
                stats["outcomes"][key] = stats["outcomes"].get(key, 0) + 1
                if obs.get("ups"):
                    distinct.add(hash((g.layer, g.new, g.stream[:64], tuple(cuts[:24]))))
                why = judge(g, cuts, obs, ref_obs, exp)
                if why is None:
                    continue
                kc = known_class(g, cuts, obs, ref_obs)
                if kc is None and exp is not None and why.endswith("one-shot delivery"):
                    # the one-shot run itself may be the deviating one
                    kc0 = known_class(g, [], ref_obs, ref_obs)
                    if kc0 and judge(g, [], ref_obs, ref_obs, exp) is not None:
                        kc = kc0
                if kc and kc in known_texts:
                    known(kc, {"new": g.new, "stream": g.stream[:200].hex(), "cuts": cuts[:40]})
                    stats["known"][kc[:24]] = stats["known"].get(kc[:24], 0) + 1
                elif len(ofail) < 50:
                    ofail.append({"session": [l[:2000] for l in (sessions[k] if len(sessions[k]) < 80 else sessions[k][:80])],
                                  "impl_out": io[k][-6:], "why": f"{g.layer}: {why}",
                                  "one_shot_session": [l[:2000] for l in sessions[ks[0]][:40]], "cuts": cuts[:80],
                                  "unrecorded_class": kc})
        # ---- oracle: send side
        for i, t in enumerate(tags):
            if t[0] != "send" or io[i] is None:
                continue
            meta = t[1]
            why, kc = judge_send(sessions[i], io[i], meta)
            sstat[meta["layer"]] = sstat.get(meta["layer"], 0) + 1
            if any(" down [" in x and not x.split(" down [")[1].startswith("]") for x in io[i]):
                distinct.add(hash(("send", tuple(l[:200] for l in sessions[i][:8]))))
            if why:
                if kc and kc in known_texts:
                    known(kc, {"session": [l[:200] for l in sessions[i][:12]]})
                    stats["known"][kc[:24]] = stats["known"].get(kc[:24], 0) + 1
                elif len(ofail) < 50:
                    ofail.append({"session": [l[:2000] for l in sessions[i]], "impl_out": [x[:600] for x in io[i]],
                                  "why": "send: " + why, "unrecorded_class": kc})

    # ---------------- batch 0: corpus (witnesses of recorded findings and fixed defects) + send side ----------------
    sessions, tags = [], []
    for fname, lines in load_corpus():
        for s in split_sessions(lines):
            sessions.append(s); tags.append(("corpus", fname))
    ncorpus = len(sessions)
    for L, meta in send_sessions(tier, chk.rng):
        sessions.append(L); tags.append(("send", meta))
    process(sessions, tags, [])
    # ---------------- receive side groups, in batches ----------------
    groups = recv_groups(tier, chk.rng)
    sessions, tags, batch_groups = [], [], []
    for g in groups:
        gi = len(batch_groups)
        batch_groups.append(g)
        for ci, cuts in enumerate(g.cutsets):
            sessions.append(g.session(cuts)); tags.append(("recv", gi, ci))
        if len(sessions) > 150000:
            process(sessions, tags, batch_groups)
            sessions, tags, batch_groups = [], [], []
    if sessions:
        process(sessions, tags, batch_groups)
    # ---------------- recorded findings that need their own build / witness ----------------
    extra_known(chk, exe, known_texts, known, ofail)

    for text, ex in known_hits.items():
        chk.known(f"{text} [{len(ex)} run(s), e.g. {json.dumps(ex[0])[:300]}]")
    chk.cov["evaluations"] = tot["sessions"]
    chk.cov["traces_validated_against_impl"] = tot["validated"]
    chk.cov["distinct_nontrivial"] = len(distinct)
    chk.cov["rule"] = ("a run = one layer instance fed one stream under one segmentation (or one send script); non-trivial = distinct "
                       "(layer, configuration, stream, cut set) for which the implementation delivered at least one message upward, "
                       "or send scripts in which the kernel accepted bytes")
    chk.cov["samples"] = samples
    stats["send_sessions"] = sstat
    stats["corpus_sessions"] = ncorpus
    chk.cov["generator_distribution"] = stats
    return conclude(chk, st, diverged, ofail, "sock_drv:sock")


def extra_known(chk, exe, known_texts, known, ofail):
    """recorded findings that need their own evaluation"""
    # 1b. HTTP ring growth: the same session with two different fills of uninitialised heap must not differ
    p = os.path.join(vlib.ROOT, "corpus", "C17", "http_ring_grow.ops")
    if os.path.exists(p):
        L = ["reset"] + [l.strip() for l in open(p) if l.strip() and not l.startswith("#")]
        o1, rc1, er1 = vlib.run_lines(exe, L, timeout=300)
        env2 = dict(vlib.ENV, ASAN_OPTIONS=vlib.ENV["ASAN_OPTIONS"] + ":malloc_fill_byte=10")
        o2, rc2, er2 = vlib.run_lines(exe, L, timeout=300, env=env2)
        strip = lambda o: [re.sub(r" down \[.*?\]", "", x) for x in o]
        if len(o1) != len(L) or len(o2) != len(L):
            ofail.append({"session": [l[:300] for l in L], "why": "http: implementation aborted on the ring-growth witness", "stderr": (er1 + er2)[-1500:]})
        elif strip(o1) != strip(o2):
            if KF_HTTP_RING in known_texts:
                known(KF_HTTP_RING, {"witness": "corpus/C17/http_ring_grow.ops", "fill_0xbe": o1[-2][:120], "fill_0x0a": o2[-2][:120]})
            else:
                ofail.append({"session": [l[:300] for l in L], "why": "http: outcome depends on the contents of uninitialised heap (malloc fill 0xBE vs 0x0A)",
                              "impl_out": [o1[-2][:300], o2[-2][:300]]})


def replay(path):
    r = json.load(open(path))
    s = r.get("session")
    if not s:
        print(json.dumps(r, indent=1)[:4000]); return 0
    vlib.ensure_libs(); vlib.extract(); vlib.lake_build(["nicemodel"])
    ok, exe, log = vlib.build_harness("sock_drv", extra=EXTRA, multidef=True)
    io, rc, err = vlib.run_lines(exe, ["reset"] + s)
    mo, _, _ = vlib.run_lines(vlib.model_exe(), ["reset"] + s)
    bad = 0
    for i, l in enumerate(["reset"] + s):
        a = io[i] if i < len(io) else "<no output: crashed>"
        b = mo[i] if i < len(mo) else "<no output>"
        print(f"{l[:90]:90s}\n   impl : {a[:300]}\n   model: {b[:300]}")
        bad += a != b
    if rc:
        print(err[-2000:])
    print("why:", r.get("why"))
    return 1 if (bad or rc or r.get("why")) else 0
