"""C20 — Candidate gathering always completes and reports what the servers confirmed."""
import json, os, re
from lib import vlib, simlib
from checks.common import conclude
from checks import simcommon as sc

MODULE = "Nice.Props.C20"
THEOREMS = [f"Nice.Props.C20.{t}" for t in (
    "C20_bounded_rounds", "C20_unbounded_reauth", "C20_candidates_sound", "C20_done_once",
    "C20_silent_item_transmissions", "run_done_stays",
    "C20_done_only_when_all_done", "tick_body_spec", "forEach_spec", "C20_tick_return_values")] + [
    "Nice.Props.C20Relay.C20_stale_nonce_is_never_final", "Nice.Props.C20Relay.analysis_ok"]
TRUSTED = [
    "Lean 4 kernel; axioms propext, Classical.choice, Quot.sound only (audited every run)",
    "Nice/Gen/DiscoveryTick.lean is REGENERATED on every run by tools/extract_ctl.py from the clang AST of agent/discovery.c "
    "priv_discovery_tick_unlocked: the accounting skeleton of the tick (tracked: not_done, need_pacing, cand->pending, cand->done, "
    "cand->stun_message.buffer; every other condition is an oracle, every other statement dropped). C20_done_only_when_all_done "
    "is proved about that regenerated definition for all oracle values. Trusted: the translator (what it drops cannot touch the "
    "tracked state unless through aliasing/pointers it does not see), Nice/Model/Ctl.lean (loop semantics), and the assumption, "
    "printed in the generated header, that stun_timer_refresh returns only enumerators of StunUsageTimerReturn",
    "Nice/Model/Gather.lean: hand-written per-item abstraction of answer handling (rounds, re-authentication, redundancy "
    "elimination, per-stream completion flag); tied by simulation oracles only: each real gathering run against scripted STUN/TURN "
    "servers is checked against the consequences the theorems state (completion once, bounded time for finite scripts, candidate "
    "soundness, completion not before every request is answered or timed out, a candidate for every matched success answer; the "
    "redundancy rule for reflexive/relayed candidates is libnice's: same IP, port ignored)",
    "scripted servers are built with libnice's own STUN library (long-term credentials, XOR-MAPPED/RELAYED addresses)",
    "the completion time bound is proved only for a bounded number of re-authentication rounds (C20_bounded_rounds); it is FALSE "
    "without that bound (C20_unbounded_reauth, reproduced on the real agent and recorded as a known finding)",
    "UDP servers only; DNS resolution, UPnP and TCP relays are not exercised",
]
K3_TEXT = ("C20/K3 a TURN server that keeps answering 438 Stale Nonce (or 401 with a changing realm) is retried for ever: gathering "
           "completion is never announced while the server answers (agent/conncheck.c priv_map_reply_to_relay_request, no retry cap)")
BEH_STUN = "dsSleEgx6"       # per-request behaviours for a STUN server
BEH_TURN = "daeErgxmnuRV"     # for a TURN server ('a' = 401 then signed success, 'V' = the same with an IPv6 relayed address)


def completion_oracles(ev, done_t, cands, servers, rc, rto):
    """two consequences of the statement that need the packet trace:
    done-early   — completion may be announced only when every request sent to a server has been answered (an answer carrying
                   its transaction id was delivered) or has run through its whole retransmission schedule (rc transmissions and
                   T + 2T + .. + T = the C19 timer's total, here 4T for rc = 3);
    missing-candidate — every transaction-matched success answer delivered before completion yields a candidate with the
                   address it supplied (server-reflexive for STUN, relayed for an authenticated TURN allocation)."""
    bad = []
    kind_of = {a: k for k, a, _ in servers}
    reqs, answered, srv_ev, nreq = {}, {}, {}, {}
    redirected = set()
    for e in ev:
        m = re.match(r"t=(\d+) tx A (\S+)->(\S+) len=\d+ stun class=0 method=(\d+) .*txid=(\w+)", e)
        if m and m.group(3).endswith(":3478") and m.group(4) in ("1", "3"):
            r = reqs.setdefault(m.group(5), dict(first=int(m.group(1)), n=0, src=m.group(2), dst=m.group(3), method=m.group(4)))
            if int(m.group(1)) <= done_t:
                r["n"] += 1
            continue
        m = re.match(r"t=(\d+) rx A (\S+)->(\S+) len=\d+ stun class=([23]) method=(\d+) .*err=(\d+) .*txid=(\w+)", e)
        if m:
            answered.setdefault(m.group(7), (int(m.group(1)), int(m.group(4)), m.group(2)))
            if m.group(6) == "300" and int(m.group(1)) <= done_t:
                redirected.add(m.group(2))     # a TURN redirect moves EVERY item of that server to the alternate server
            continue
        m = re.match(r"t=(\d+) server (\S+) req method=(\d+) behaviour=(\S) authed=(\d) txid=(\w+) from=(\S+)", e)
        if m:
            nreq[m.group(2)] = nreq.get(m.group(2), 0) + 1
            srv_ev.setdefault(m.group(6), []).append((m.group(4), int(m.group(5)), nreq[m.group(2)], m.group(2)))
    total = rto * (2 ** (rc - 1) - 1) + rto          # T + 2T + .. then the final (halved) wait = T: 4T for rc = 3
    base_comp = {c[2]: c[1] for c in cands if c[0] == 0}
    for txid, r in reqs.items():
        if r["first"] > done_t:
            continue
        a = answered.get(txid)
        if a is None or a[0] > done_t:
            if r["dst"] in redirected:
                continue
            if r["n"] < rc or done_t < r["first"] + total - 25:
                bad.append(("done-early", f"gathering-done announced at t={done_t} while the request {txid[:8]}.. sent from {r['src']} to "
                                          f"{r['dst']} at t={r['first']} was still outstanding ({r['n']} of {rc} transmissions, no answer "
                                          f"delivered, schedule ends at t={r['first'] + total})"))
            continue
        if a[1] != 2 or a[0] > r["first"] + total - 25:
            continue      # not a success, or delivered when the transaction had already timed out and been forgotten
        behs = srv_ev.get(txid, [])
        comp = base_comp.get(r["src"])
        if comp is None:
            continue
        if kind_of.get(r["dst"]) == "stun" and r["method"] == "1":
            want = set()
            for b, _, _, _ in behs:
                if b in "sSl":
                    # libnice's redundancy rule for reflexive/relayed candidates of one component compares the IP only
                    # (discovery.c priv_add_local_candidate_pruned, nice_address_equal_no_port)
                    want.add("192.0.2." + r["dst"].split(":")[0].split(".")[-1] + ":")
                elif b == "6":
                    want.add("2001:db8::7")
            if want and all(b in "sSl6" for b, _, _, _ in behs):
                if not any(c[0] == 1 and c[1] == comp and any(c[2].startswith(w) or (w == '2001:db8::7' and w in c[2]) for w in want) for c in cands):
                    bad.append(("missing-candidate", f"the STUN server answered request {txid[:8]}.. from {r['src']} with success at "
                                                     f"t={a[0]} (before completion at t={done_t}) supplying {sorted(want)}, but no "
                                                     f"server-reflexive candidate with that address exists for component {comp}"))
        elif kind_of.get(r["dst"]) == "turn" and r["method"] == "3" and r["dst"] not in redirected:
            if behs and all(b in "sSlRv" and au == 1 for b, au, _, _ in behs):
                want = {r["dst"].split(":")[0] + ":"} if not any(b == "R" for b, _, _, _ in behs) else \
                       {r["dst"].split(":")[0] + ":", "192.0.2." + r["dst"].split(":")[0].split(".")[-1] + ":"}
                if all(b == "R" for b, _, _, _ in behs):
                    want = {"192.0.2." + r["dst"].split(":")[0].split(".")[-1] + ":"}
                if any(b == "v" for b, _, _, _ in behs):
                    v6 = "2001:db8::%x:" % int(r["dst"].split(":")[0].split(".")[-1])
                    want = (want if not all(b == "v" for b, _, _, _ in behs) else set()) | {v6}     # dual-stack relay: IPv6 relayed address
                if not any(c[0] == 3 and c[1] == comp and any(c[2].startswith(w) for w in want) for c in cands):
                    bad.append(("missing-candidate", f"the TURN server granted the authenticated allocation {txid[:8]}.. from {r['src']} at "
                                                     f"t={a[0]} (before completion at t={done_t}) with relayed address in {sorted(want)}, "
                                                     f"but no relayed candidate with that address exists for component {comp}"))
    return bad


# directed configurations, run before the generated ones: (naddr, ncomp, stun script or None, [turn scripts], loss, latency)
DIRECTED = [
    (1, 1, "s", ["a"], 0, 1),          # STUN next to TURN on one socket (fixed: 36f5723)
    (1, 1, "ds", [], 0, 1),            # first binding request lost, the retransmission is answered
    (2, 2, "ds", [], 0, 40),
    (1, 1, "dds", [], 0, 1),           # answered only on the last transmission
    (1, 1, "l", [], 0, 1),             # answer later than the first RTO
    (1, 1, None, ["da"], 0, 1),        # first allocate lost
    (1, 2, "s", ["a", "a"], 0, 5),
    (2, 1, "6", ["a"], 0, 1),
    (1, 1, "ddd", [], 0, 1),           # silent server: full schedule, then completion
    (1, 1, "s", ["ra"], 0, 1),         # redirect to a silent alternate server
    (1, 1, None, ["uR"], 0, 1),        # TURN server on the NAT gateway: relayed and mapped address share the IP
    (1, 2, "s", ["uR"], 0, 5),
    (1, 1, "s", ["V"], 0, 1),          # dual-stack relay: IPv4 mapped address, IPv6 relayed address (RFC 6156)
    (1, 2, None, ["V", "a"], 0, 5),
]


def gather_model_lines(ev, done_t, cands, servers):
    """per discovery item (local socket x server) the sequence of rounds the real agent went through, classified from the
    trace, as a `gather item` line for the Lean Gather model, with what the implementation did (rounds, candidate) as the
    expected output.  Items of a server that issued a 300 redirect and runs with packet duplication are skipped (a redirect
    moves all items of that server at once; the per-item model does not carry that)."""
    kind_of = {a: k for k, a, _ in servers}
    script_of = {a: sc_ for _, a, sc_ in servers}
    items, order = {}, []
    answered, redirected = {}, set()
    for e in ev:
        m = re.match(r"t=(\d+) tx A (\S+)->(\S+) len=\d+ stun class=0 method=([13]) .*mi=(\d) txid=(\w+)", e)
        if m and m.group(3) in kind_of and int(m.group(1)) <= done_t:
            key = (m.group(2), m.group(3))
            if key not in items:
                items[key] = []; order.append(key)
            if not items[key] or items[key][-1]["txid"] != m.group(6):
                items[key].append({"txid": m.group(6), "mi": int(m.group(5)), "t": int(m.group(1))})
            continue
        m = re.match(r"t=(\d+) rx A (\S+)->(\S+) len=\d+ stun class=([23]) method=(\d+) .*err=(\d+) mi=(\d) txid=(\w+)", e)
        if m and int(m.group(1)) <= done_t:
            answered.setdefault(m.group(8), []).append((int(m.group(4)), int(m.group(6)), int(m.group(7)), int(m.group(1))))
            if m.group(6) == "300":
                redirected.add(m.group(2))
    base_comp = {c[2]: c[1] for c in cands if c[0] == 0}
    lines = []
    have = {}      # component -> candidate address codes already created by earlier items (success order)
    succ = []
    for key in order:
        src, dst = key
        if dst in redirected or src not in base_comp:
            continue
        behs, ok = [], True
        for r in items[key]:
            # the first answer the transaction accepts: a TURN item (long-term credentials) ignores answers without
            # MESSAGE-INTEGRITY except the 401 / 438 challenges, and keeps retransmitting; answers after the schedule are late
            a = None
            for cand_a in answered.get(r["txid"], []):
                if cand_a[3] > r["t"] + 2000 - 25:
                    break
                if kind_of[dst] == "stun" or cand_a[2] == 1 or (cand_a[0] == 3 and cand_a[1] in (401, 438)):
                    a = cand_a
                    break
            if a is None:
                behs.append("x")
            elif a[0] == 2:
                code = int(dst.split(":")[0].split(".")[-1]) + (1000 if kind_of[dst] == "turn" else 0)
                behs.append(f"s:{code}")
            elif a[1] in (401, 438) and (a[1] == 438 or r["mi"] == 0):
                behs.append("a")
            else:
                behs.append("e")
        if not ok or not behs:
            continue
        comp = base_comp[src]
        code = int(dst.split(":")[0].split(".")[-1]) + (1000 if kind_of[dst] == "turn" else 0)
        want_ip = ("127.0.0." if kind_of[dst] == "turn" else "192.0.2.") + dst.split(":")[0].split(".")[-1] + ":"
        got = any(c[1] == comp and c[0] == (3 if kind_of[dst] == "turn" else 1) and c[2].startswith(want_ip) for c in cands)
        if kind_of[dst] == "turn" and "V" in script_of.get(dst, ""):
            # (a dual-stack relay hands out 2001:db8::<its last octet>)
            got = got or any(c[1] == comp and c[0] == 3 and c[2].startswith("2001:db8::%x:" % int(dst.split(":")[0].split(".")[-1])) for c in cands)
        lines.append((f"gather item - {' '.join(behs)}",
                      f"done 1 rounds {len(behs)} cands {code if got and behs[-1].startswith('s:') else '-'}",
                      f"item {src}->{dst}"))
    return lines


def edge_scenario(args):
    """gathering runs in which a STUN server is configured but no local candidate is eligible for a server-reflexive query
    (ICE-TCP only agent), with 1..2 components and 1..2 addresses: completion must still be announced exactly once"""
    exe, seed, tier = args
    import random
    rng = random.Random(f"C20edge/{seed}")
    s = simlib.Sim(exe)
    bad = []
    try:
        ncomp, naddr = rng.randint(1, 2), rng.randint(1, 2)
        s.op(f"net seed {seed}"); s.op("net latency 1 5")
        s.op(f"server 127.0.0.50:3478 stun {rng.choice(['s', 'd', 'l'])}")
        s.op("new A ctrl=1 compat=0 opts=0 rc=3 rto=500 icetcp=1 iceudp=0 addrs=" + ",".join(f"127.0.0.{i + 1}" for i in range(naddr)) +
             " stunsrv=127.0.0.50:3478")
        s.op(f"stream A {ncomp}")
        s.op("attach A 1")
        s.op("gather A 1")
        s.op("settle 100")
        s.op("run 6000")
        dones = [e for e in s.events() if " gathering-done " in e]
        if len(dones) != 1:
            bad.append(("never-done" if not dones else "done-twice",
                        f"ICE-TCP-only agent with a STUN server configured: gathering-done announced {len(dones)} times within 6 s"))
        q = simlib.parse_q(s.op("q A 1 1")[1])
        if not dones and q["state"] == "GATHERING":
            bad.append(("never-done", "component still GATHERING"))
        return dict(seed=seed, bad=bad, known=[], script=s.script, servers=[("stun", "127.0.0.50:3478", "-")], ncands=2,
                    done_at=None, endless=None, glines=[])
    except simlib.SimDied as e:
        return dict(seed=seed, bad=[("crash", str(e)[-1500:])], known=[], script=s.script, servers=[], ncands=0, done_at=None,
                    endless=None, glines=[])
    finally:
        s.close()


def redirect_scenario(args):
    """a TURN server that answers 300 Try Alternate, the alternate server challenges (401) and then grants: with and without
    force-relay the agent must follow the redirect, answer the challenge, obtain the relayed candidate and announce completion
    once (in force-relay mode datagrams from addresses that are not TURN servers are ignored — the alternate server IS one)"""
    exe, seed, tier = args
    import random
    rng = random.Random(f"C20redir/{seed}")
    s = simlib.Sim(exe)
    bad = []
    try:
        fr = rng.randint(0, 1)
        ncomp = rng.randint(1, 2)
        s.op(f"net seed {seed}"); s.op(f"net latency 1 {rng.choice([1, 5, 30])}")
        s.op("server 127.0.0.60:3478 turn r user pass")
        s.op("server 127.0.0.99:3478 turn aa user pass")
        s.op(f"new A ctrl=1 compat=0 opts=0 rc=3 rto=500 forcerelay={fr} addrs=127.0.0.1")
        s.op(f"stream A {ncomp}"); s.op("attach A 1")
        for c in range(1, ncomp + 1):
            s.op(f"relay A 1 {c} 127.0.0.60:3478 user pass 0")
        s.op("gather A 1")
        s.op("run 8000")
        ev = s.events()
        alt = [e for e in ev if " server 127.0.0.99:3478 req " in e]
        authed = [e for e in alt if "authed=1" in e]
        dones = [e for e in ev if " gathering-done " in e]
        relayed = [e for e in ev if re.search(r" A new-candidate \d+ type=3 ", e)]
        if len(dones) != 1:
            bad.append(("never-done" if not dones else "done-twice", f"redirected TURN allocation (force-relay={fr}): completion announced {len(dones)} times within 8 s"))
        if alt and not authed:
            bad.append(("challenge-ignored", f"force-relay={fr}: the alternate TURN server answered {len(alt)} Allocate request(s) with a 401 challenge on a loss-free "
                                             f"path, the agent never sent the authenticated request"))
        if authed and len(relayed) < ncomp:
            bad.append(("missing-candidate", f"force-relay={fr}: the alternate server granted {len(authed)} allocation(s), {len(relayed)} relayed candidate(s) announced for {ncomp} component(s)"))
        return dict(seed=seed, bad=bad, known=[], script=s.script, servers=[("turn", "127.0.0.60:3478", "r"), ("turn", "127.0.0.99:3478", "aa")],
                    ncands=1 + len(relayed), done_at=None, endless=None, glines=[])
    except simlib.SimDied as e:
        return dict(seed=seed, bad=[("crash", str(e)[-1500:])], known=[], script=s.script, servers=[], ncands=0, done_at=None,
                    endless=None, glines=[])
    finally:
        s.close()


def two_stream_scenario(args):
    """two streams, relay / STUN servers configured on the second one BEFORE its gathering run, the first stream gathered first:
    completion is announced once per gathering RUN — the second stream gets none while it has not been asked to gather, and
    exactly one after its own run"""
    exe, seed, tier = args
    import random
    rng = random.Random(f"C20two/{seed}")
    s = simlib.Sim(exe)
    bad = []
    try:
        script = rng.choice(["aa", "d", "uaa", "ae"])
        overlap = rng.random() < 0.4
        s.op(f"net seed {seed}"); s.op("net latency 1 5" if not overlap else f"net latency {rng.choice([100, 150])} {rng.choice([200, 300])}")
        s.op(f"server 127.0.0.60:3478 turn {script} user pass")
        s.op("new A ctrl=1 compat=0 opts=0 rc=3 rto=500 addrs=127.0.0.1")
        s.op("stream A 1"); s.op("stream A 1"); s.op("attach A 1"); s.op("attach A 2")
        first, second = rng.choice([(1, 2), (2, 1)])
        if overlap:
            # the second (host-only) stream is asked to gather while the first one's Allocate is still in flight on a slow path:
            # the second run completes at once, the first run's completion must wait for its own server
            s.op(f"relay A {first} 1 127.0.0.60:3478 user pass 0")
            s.op(f"gather A {first}")
            s.op(f"run {rng.choice([30, 100, 250])}")
            s.op(f"gather A {second}")
            s.op("run 9000")
            ev = s.events()
            for sid in (first, second):
                n = len([e for e in ev if re.search(rf" A gathering-done {sid}$", e)])
                if n != 1:
                    bad.append(("never-done" if n == 0 else "done-twice", f"stream {sid}: one gathering run, completion announced {n} times"))
            idx = [i for i, e in enumerate(ev) if re.search(rf" A gathering-done {first}$", e)]
            late = [e for e in ev[idx[0] + 1:] if re.search(rf" A new-candidate {first} ", e)] if idx else []
            if late:
                bad.append(("done-early", f"stream {first}: gathering-done was announced ({ev[idx[0]][:20]}..) while its TURN allocation was still in flight — "
                                          f"stream {second}'s run completing announced it — and a candidate of that run arrived afterwards: {late[0][:90]}"))
            txs = [int(m.group(1)) for m in (re.match(r"t=(\d+) tx A \S+->127\.0\.0\.60:3478 ", e) for e in ev) if m]
            rxs = [int(m.group(1)) for m in (re.match(r"t=(\d+) rx A 127\.0\.0\.60:3478->", e) for e in ev) if m]
            if idx and txs and not late:
                td = int(re.match(r"t=(\d+)", ev[idx[0]]).group(1))
                # nothing may be outstanding at completion: the last request was answered, or ran through its schedule (4T = 2000 ms)
                last_tx_before = max([t for t in txs if t <= td], default=None)
                if last_tx_before is not None and not any(last_tx_before <= t <= td for t in rxs) and td < min(txs) + 2000 - 25:
                    bad.append(("done-early", f"stream {first}: gathering-done at t={td} while the Allocate request sent at t={last_tx_before} was neither "
                                              f"answered nor timed out (first transmission at t={min(txs)}, schedule 2000 ms)"))
            return dict(seed=seed, bad=bad, known=[], script=s.script, servers=[("turn", "127.0.0.60:3478", script)], ncands=2,
                        done_at=None, endless=None, glines=[])
        if rng.random() < 0.8:
            s.op(f"relay A {second} 1 127.0.0.60:3478 user pass 0")
        if rng.random() < 0.4:
            s.op(f"relay A {first} 1 127.0.0.60:3478 user pass 0")
        s.op(f"gather A {first}")
        s.op(f"run {rng.choice([200, 3000, 8000])}")
        d2 = len([e for e in s.events() if re.search(rf" A gathering-done {second}$", e)])
        if d2:
            bad.append(("done-without-run", f"stream {second} was never asked to gather, yet gathering-done was announced {d2} time(s) for it "
                                            f"when stream {first} finished its run"))
        s.op(f"gather A {second}")
        s.op("run 9000")
        for sid in (first, second):
            n = len([e for e in s.events() if re.search(rf" A gathering-done {sid}$", e)])
            if n != 1:
                bad.append(("never-done" if n == 0 else "done-twice", f"stream {sid}: one gathering run, completion announced {n} times"))
        return dict(seed=seed, bad=bad, known=[], script=s.script, servers=[("turn", "127.0.0.60:3478", script)], ncands=2,
                    done_at=None, endless=None, glines=[])
    except simlib.SimDied as e:
        return dict(seed=seed, bad=[("crash", str(e)[-1500:])], known=[], script=s.script, servers=[], ncands=0, done_at=None,
                    endless=None, glines=[])
    finally:
        s.close()


def late_relay_scenario(args):
    """gathering restarted by adding a relay server AFTER a gathering run has completed and been announced: the new TURN server
    must be asked (Allocate), a second completion must be announced, and a granted allocation must show up as a relayed candidate"""
    exe, seed, tier = args
    import random
    rng = random.Random(f"C20late/{seed}")
    s = simlib.Sim(exe)
    bad = []
    try:
        ncomp = rng.randint(1, 2)
        script = rng.choice(["aa", "aa", "uaa", "d", "ae"])
        s.op(f"net seed {seed}"); s.op("net latency 1 5")
        s.op(f"server 127.0.0.60:3478 turn {script} user pass")
        s.op("new A ctrl=1 compat=0 opts=0 rc=3 rto=500 addrs=127.0.0.1")
        s.op(f"stream A {ncomp}"); s.op("attach A 1"); s.op("gather A 1")
        s.op(f"run {rng.choice([100, 1000, 6000])}")
        n0 = len([e for e in s.events() if " gathering-done " in e])
        if n0 != 1:
            bad.append(("never-done", f"first gathering run (no server): gathering-done announced {n0} times"))
        mark = len(s.events())
        for c in range(1, ncomp + 1):
            s.op(f"relay A 1 {c} 127.0.0.60:3478 user pass 0")
        s.op("run 8000")
        ev = s.events()[mark:]
        reqs = [e for e in ev if " server 127.0.0.60:3478 req " in e]
        dones = [e for e in ev if " gathering-done " in e]
        relayed = [e for e in ev if re.search(r" A new-candidate \d+ type=3 ", e)]
        if not reqs:
            bad.append(("server-not-asked", "a TURN server added after gathering had completed was never sent an Allocate request within 8 s"))
        if len(dones) != 1:
            bad.append(("never-done" if not dones else "done-twice",
                        f"gathering restarted by nice_agent_set_relay_info: completion announced {len(dones)} times within 8 s (script `{script}`)"))
        granted = [e for e in reqs if "behaviour=s authed=1" in e]
        if granted and not relayed:
            bad.append(("missing-candidate", "the TURN server granted an allocation after the late set_relay_info but no relayed candidate was announced"))
        return dict(seed=seed, bad=bad, known=[], script=s.script, servers=[("turn", "127.0.0.60:3478", script)], ncands=1 + len(relayed),
                    done_at=None, endless=None, glines=[])
    except simlib.SimDied as e:
        return dict(seed=seed, bad=[("crash", str(e)[-1500:])], known=[], script=s.script, servers=[], ncands=0, done_at=None,
                    endless=None, glines=[])
    finally:
        s.close()


def scenario(args):
    exe, seed, tier = args
    import random
    rng = random.Random(f"C20/{seed}")
    directed = None
    if isinstance(seed, tuple):
        directed = DIRECTED[seed[1]]
        seed = 777000 + seed[1]
    ncomp = rng.randint(1, 2)
    naddr = rng.randint(1, 2)
    use_stun = rng.random() < 0.7
    nturn = rng.choice([0, 0, 1, 1, 2, 3])
    rc, rto, ta = 3, 500, 20
    endless = None
    s = simlib.Sim(exe)
    servers = []
    bad, known = [], []
    if directed:
        naddr, ncomp, dstun, dturn, dloss, dlat = directed
        use_stun, nturn = dstun is not None, len(dturn)
    try:
        s.op(f"net seed {seed}")
        lat = rng.choice([1, 5, 40])
        loss = rng.choice([0, 0, 0, 20, 40])
        dup = rng.choice([0, 0, 15])
        if directed:
            lat, loss, dup = dlat, dloss, 0
        s.op(f"net latency 1 {lat}")
        s.op(f"net loss {loss} {rc - 1}")
        s.op(f"net dup {dup}")
        if use_stun:
            script = "".join(rng.choice(BEH_STUN) for _ in range(rng.randint(1, 4)))
            if directed:
                script = dstun
            s.op(f"server 127.0.0.50:3478 stun {script}")
            servers.append(("stun", "127.0.0.50:3478", script))
        for k in range(nturn):
            script = "".join(rng.choice(BEH_TURN) for _ in range(rng.randint(1, 4)))
            if directed:
                script = dturn[k]
            elif rng.random() < 0.08 and endless is None:
                script = rng.choice(["n", "un", "r"])    # endless 438 / 401+438 / 300
                endless = script
            elif script[-1] in "nur":
                script += rng.choice("ade")      # make the script finite unless deliberately endless
            s.op(f"server 127.0.0.{60 + k}:3478 turn {script} user pass")
            servers.append(("turn", f"127.0.0.{60 + k}:3478", script))
        s.op("new A ctrl=1 compat=0 opts=0 rc=3 rto=500 addrs=" + ",".join(f"127.0.0.{i + 1}" for i in range(naddr)) +
             (" stunsrv=127.0.0.50:3478" if use_stun else ""))
        s.op(f"stream A {ncomp}")
        s.op("attach A 1")
        for c in range(1, ncomp + 1):
            for k in range(nturn):
                s.op(f"relay A 1 {c} 127.0.0.{60 + k}:3478 user pass 0")
        t0 = int(s.op("stats")[1].split()[1].split("=")[1])
        s.op("gather A 1")
        # upper bound for finite scripts: every item may need len(script) rounds, each <= Ta pacing per item + full timer
        nitems = naddr * ncomp * ((1 if use_stun else 0) + nturn)
        rounds = max([len(sc_[2]) + 1 for sc_ in servers] + [1])
        per_round = rto + 2 * rto + rto + 50          # T, 2T, T (N=3) + slack
        bound = (nitems + 1) * ta * (rounds + 1) * 3 + rounds * per_round + 2000
        s.op(f"run {bound if not endless else 120000}")
        ev = s.events()
        dones = [int(re.match(r"t=(\d+)", e).group(1)) for e in ev if " gathering-done " in e]
        if endless:
            if not dones:
                known.append(("K3", f"no gathering-done within 120 s against server script `{endless}`"))
            s.op("run 1000")
        else:
            if len(dones) == 0:
                bad.append(("never-done", f"gathering not announced complete within {bound} ms (items={nitems}, servers={servers})"))
        if len(dones) > 1:
            bad.append(("done-twice", f"gathering-done announced {len(dones)} times: {dones}"))
        # soundness / completeness of the candidate list at completion
        cands = []
        for c in range(1, ncomp + 1):
            evs, st = s.op(f"localcands A 1 {c}")
            for e in evs:
                m = re.match(r"cand type=(\d) tr=(\d) comp=(\d+) prio=\d+ addr=(\S+) base=(\S+)", e)
                cands.append((int(m.group(1)), int(m.group(3)), m.group(4), m.group(5)))
        announced = [e for e in ev if " new-candidate " in e]
        keyset = set()
        for e in announced:
            m = re.search(r"type=(\d) tr=(\d) comp=(\d+) prio=\d+ addr=(\S+) base=(\S+)", e)
            k = (m.group(1), m.group(3), m.group(4), m.group(5))
            if k in keyset:
                bad.append(("candidate-announced-twice", e[:160]))
            keyset.add(k)
        hosts = [c for c in cands if c[0] == 0]
        if len(hosts) != naddr * ncomp:
            bad.append(("host-candidates", f"{len(hosts)} host candidates for {naddr} addresses x {ncomp} components"))
        # addresses the servers really supplied in transaction-matched success answers
        srv_ev_all = {}
        for e in ev:
            m = re.match(r"t=\d+ server \S+ req method=\d+ behaviour=(\S) authed=(\d) txid=(\w+)", e)
            if m:
                srv_ev_all.setdefault(m.group(3), []).append((m.group(1), int(m.group(2)), 0, 0))
        supplied = set()
        for e in ev:
            m = re.match(r"t=\d+ rx A (\S+)->(\S+) len=\d+ stun class=2 method=(\d+) .*txid=(\w+)", e)
            if m:
                srv_ip = m.group(1).split(":")[0]
                last = srv_ip.split(".")[-1]
                port = m.group(2).split(":")[1]
                supplied.add(f"192.0.2.{last}:{port}")       # mapped address rule of the scripted servers
                supplied.add("[2001:db8::7]:4242"); supplied.add("2001:db8::7:4242")
                supplied.add("relay:" + srv_ip)
                supplied.add("relay:192.0.2." + last)          # behaviour R: relayed address on the mapped IP
                if any(b == "v" for b, _, _, _ in srv_ev_all.get(m.group(4), [])):
                    supplied.add("relay6:2001:db8::%x" % int(last))   # behaviour V: IPv6 relayed address
        for t, comp, addr, base in cands:
            if t == 1 and addr not in supplied and not addr.startswith("2001:db8::7"):
                bad.append(("unconfirmed-candidate", f"server-reflexive candidate {addr} was supplied by no success answer"))
            if t == 3 and addr.startswith("2001:db8::"):
                if "relay6:" + addr.rsplit(":", 1)[0] not in supplied:
                    bad.append(("unconfirmed-candidate", f"relayed candidate {addr} was supplied by no success answer"))
            elif t == 3 and "relay:" + addr.split(":")[0] not in supplied:
                bad.append(("unconfirmed-candidate", f"relayed candidate {addr} was supplied by no success answer"))
        if len(set(cands)) != len(cands):
            bad.append(("duplicate-candidate", str(cands)))
        glines = []
        if dones and not endless:
            bad += completion_oracles(ev, dones[0], cands, servers, rc, rto)
            if dup == 0 and not any("6" in sc_[2] or "R" in sc_[2] for sc_ in servers):
                glines = gather_model_lines(ev, dones[0], cands, servers)
        return dict(seed=seed, bad=bad, known=known, script=s.script, servers=servers, ncands=len(cands),
                    done_at=(dones[0] - t0) if dones else None, endless=endless, glines=glines)
    except simlib.SimDied as e:
        return dict(seed=seed, bad=[("crash", str(e)[-1500:])], known=[], script=s.script, servers=servers, ncands=0,
                    done_at=None, endless=endless)
    finally:
        s.close()


def run(tier, seed):
    chk = vlib.Check("C20", tier, seed)
    chk.cov["trusted_base"] = TRUSTED
    st = vlib.std_pipeline(chk, MODULE, THEOREMS)
    diverged, ofail = [], []
    if st["libs"]:
        ok, exe, log = sc.build_sim()
        if not ok:
            chk.note("harness build failed: " + log[-1500:]); st["libs"] = False; st["log"] = log
        else:
            n = 300 if tier == "quick" else 6000
            res = simlib.run_parallel(scenario, [(exe, ("directed", i), tier) for i in range(len(DIRECTED))] +
                                      [(exe, seed * 100000 + i, tier) for i in range(n)])
            res += simlib.run_parallel(edge_scenario, [(exe, seed * 100000 + i, tier) for i in range(8 if tier == "quick" else 60)])
            res += simlib.run_parallel(late_relay_scenario, [(exe, seed * 100000 + i, tier) for i in range(10 if tier == "quick" else 80)])
            res += simlib.run_parallel(two_stream_scenario, [(exe, seed * 100000 + i, tier) for i in range(20 if tier == "quick" else 160)])
            res += simlib.run_parallel(redirect_scenario, [(exe, seed * 100000 + i, tier) for i in range(8 if tier == "quick" else 60)])
            kinds, behs = {}, {}
            k3 = None
            for r in res:
                for kind, what in r["bad"]:
                    ofail.append({"why": f"{kind}: {what}", "servers": r["servers"], "session": r["script"]})
                    kinds[kind] = kinds.get(kind, 0) + 1
                for kind, what in r["known"]:
                    k3 = k3 or (what, r["seed"])
                for _, _, scr in r["servers"]:
                    for ch in scr:
                        behs[ch] = behs.get(ch, 0) + 1
            # per-item replay through the Lean Gather model
            glines, owner = [], []
            for ri, r in enumerate(res):
                for (line, exp, what) in r.get("glines", []):
                    glines.append(line); owner.append((ri, exp, what))
            n_items = 0
            if glines and st.get("proof"):
                mo, mrc, merr = vlib.run_lines(vlib.model_exe(), glines)
                if len(mo) != len(glines):
                    diverged.append({"op": "gather", "impl": f"{len(glines)} lines", "model": f"{len(mo)} lines rc={mrc}"})
                else:
                    for (ri, exp, what), line, got in zip(owner, glines, mo):
                        n_items += 1
                        if got != exp and len([d for d in diverged if d.get("index") == ri]) == 0:
                            diverged.append({"index": ri, "op": line, "impl": exp, "model": got, "what": what,
                                             "session": res[ri]["script"], "servers": res[ri]["servers"]})
            if k3:
                chk.known(K3_TEXT + f" [e.g. scenario seed {k3[1]}: {k3[0]}]")
            chk.cov["evaluations"] = len(res)
            chk.cov["distinct_nontrivial"] = len({json.dumps(r["servers"]) for r in res if r["ncands"] > 1})
            chk.cov["traces_validated_against_impl"] = n_items
            chk.cov["rule"] = ("one evaluation = one gathering run of a real agent (1-2 addresses, 1-2 components, 0-1 STUN and 0-3 TURN "
                               "servers) against scripted servers drawn from drop / success / duplicate / late / error / garbage / other "
                               "txid / IPv6 / 401-then-auth / unauthenticated success / 438 / 300, with loss, latency and duplication on "
                               "the server paths; non-trivial = distinct server configurations that produced a reflexive or relayed candidate")
            chk.cov["samples"] = [res[0]["script"][:20]]
            times = [r["done_at"] for r in res if r["done_at"] is not None]
            chk.cov["generator_distribution"] = {"behaviour_letters": behs, "failure_kinds": kinds,
                                                 "completion_ms_max": max(times) if times else None,
                                                 "endless_scripts": sum(1 for r in res if r["endless"]),
                                                 "discovery_items_replayed_through_model": n_items}
    return conclude(chk, st, diverged, ofail, "sim_drv:C20 gathering vs scripted servers")


def replay(path):
    r = json.load(open(path))
    s = r.get("session")
    if not s:
        print(json.dumps(r, indent=1)); return 0
    vlib.ensure_libs()
    ok, exe, log = sc.build_sim()
    out, err, rc = simlib.replay_script(exe, s)
    print(out[-8000:]); print(err[-2000:])
    return 0
