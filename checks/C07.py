"""C07 — whatever the STUN builder emits is bounded, well-formed and reads back equal."""
import json, os, struct
from lib import vlib
from checks.common import conclude
from checks import stunlib as S
from checks.C06 import accessor_oracle

MODULE = "Nice.Props.C07Usage"   # re-exports Nice.Props.C07 and adds the usage-builder theorem
THEOREMS = [f"Nice.Props.C07.{t}" for t in (
    "C07_append_fits_or_unchanged", "C07_no_write_outside", "C07_no_write_outside_bytes",
    "C07_init_no_fault", "C07_finished_is_wellformed", "C07_roundtrip_32", "C07_roundtrip_64",
    "C07_roundtrip_flag", "C07_roundtrip_bytes", "C07_roundtrip_addr", "C07_xor_involution",
    "C07_roundtrip_error", "C07_finish_len", "C07_finished_message_wellformed",
    "C07_usage_builders_propagate")]
TRUSTED = [
    "Lean 4 kernel; axioms allowed: propext, Classical.choice, Quot.sound (audited by #print axioms on every run)",
    "hand-written model Nice/Model/Stun/{Basic,Find,Append,Agent}.lean of stun/stunmessage.c, stun5389.c, utils.c, "
    "stunagent.c (finish), tied by the stun_drv differential stream (guarded, exactly sized output buffers)",
    "well-formedness theorems assume cap <= 65535 (16-bit message length), the property's range is 0..2048",
    "HMAC-SHA1 / MD5 are parameters of the finish theorems; the executable model's own SHA-1/MD5 are compared with GnuTLS on every run",
]
STREAM = "stun_drv:builder"
HAVE_FIN = True    # stun_agent_finish_message ops in the stream

ERR_CODES = [300, 400, 401, 403, 420, 437, 438, 441, 486, 487, 500, 507, 508, 699, 301, 599, 0, 99, 299, 700, 1000, 65535]


def rand_cfg(rng):
    if rng.random() < 0.1:
        return None, 0
    compat = rng.randrange(4)
    flags = rng.choice([0, S.F_SHORT, S.F_LONG, S.F_FPR, S.F_FPR | S.F_SHORT, S.F_NOALIGN, S.F_SW,
                        S.F_NOALIGN | S.F_LONG, rng.randrange(512), rng.randrange(512)])
    return compat, flags


def rand_cap(rng):
    r = rng.random()
    if r < 0.25:
        return rng.randrange(0, 65)
    if r < 0.6:
        return rng.randrange(20, 200)
    if r < 0.7:
        return rng.choice([19, 20, 21, 23, 24, 25, 27, 28, 31, 32, 2047, 2048])
    return rng.randrange(0, 2049)


def rand_type(rng):
    r = rng.random()
    if r < 0.6:
        return rng.choice(S.KNOWN_TYPES)
    if r < 0.75:
        return rng.choice([S.MI, S.FPR, S.REALM, S.NONCE, S.USERNAME, S.ERROR_CODE])
    return rng.randrange(0x10000)


def rand_ip(rng, n):
    return S.rand_bytes(rng, n)


def rand_append(rng, cap, room):
    """one append op line (arbitrary types / lengths / values)"""
    t = rand_type(rng)
    k = rng.choice(["bytes"] * 5 + ["flag", "u32", "u32", "u64", "str", "str", "addr", "addr", "xaddr", "xaddr",
                                    "xaddrf", "err", "err", "sw", "raw"])
    if k == "bytes":
        n = rng.choice([0, 1, 2, 3, 4, 5, 8, 20, max(0, room - 4), max(0, room - 3), max(0, room - 5),
                        max(0, room - 8), room, room + 1, rng.randrange(0, 64), rng.randrange(0, cap + 8)])
        return f"stun app {t:04x} bytes {S.hx(S.rand_bytes(rng, n))}"
    if k == "flag":
        return f"stun app {t:04x} flag"
    if k == "u32":
        return f"stun app {t:04x} u32 {rng.choice([0, 1, 0xffffffff, rng.getrandbits(32)])}"
    if k == "u64":
        return f"stun app {t:04x} u64 {rng.choice([0, 1, 2 ** 64 - 1, rng.getrandbits(64)])}"
    if k == "str":
        n = rng.choice([0, 1, 3, 4, 5, 9, rng.randrange(0, 40)])
        b = bytes(rng.randrange(1, 256) for _ in range(n))
        if n > 2 and rng.random() < 0.1:
            b = b[:n // 2] + b"\0" + b[n // 2:]
        return f"stun app {t:04x} str {S.hx(b)}"
    if k in ("addr", "xaddr", "xaddrf"):
        fam = rng.choice([4, 4, 4, 6, 6, 7])
        ip = rand_ip(rng, 4 if fam == 4 else 16)
        alen = rng.choice([16, 28, 128, 128, 2, 8, 15, 27, 200] if fam != 6 else [28, 128, 128, 16, 27, 300])
        line = f"stun app {t:04x} {k} {fam} {rng.getrandbits(16)} {S.hx(ip)} {alen}"
        if k == "xaddrf":
            line += f" {rng.choice([S.MAGIC, 0, rng.getrandbits(32)])}"
        return line
    if k == "err":
        return f"stun app 0000 err {rng.choice(ERR_CODES + [rng.randrange(300, 700)] * 6)}"
    if k == "sw":
        if rng.random() < 0.3:
            return "stun app 0000 sw null"
        # valid UTF-8 (the API contract), 0..140 characters
        n = rng.choice([0, 1, 5, 127, 128, 129, rng.randrange(0, 140)])
        s = "".join(rng.choice(["a", "Z", "é", "€", "𝄞", " ", "7"]) for _ in range(n))
        return f"stun app 0000 sw {S.hx(s.encode())}"
    return f"stun raw {t:04x} {rng.choice([0, 1, 4, 7, room, max(0, room - 4), rng.randrange(0, 80)])}"


def readback_line(rng, t):
    k = rng.choice(["mfind", "mfind", "m32", "m64", "mflag", "mstr", "maddr", "mxaddr", "mxaddrf", "merr"])
    if k == "merr":
        return "stun merr"
    if k == "mstr":
        return f"stun mstr {t:04x} {rng.choice([0, 1, 5, 64, 4096])}"
    if k in ("maddr", "mxaddr"):
        return f"stun {k} {t:04x} {rng.choice([128, 128, 28, 16, 15, 0])}"
    if k == "mxaddrf":
        return f"stun mxaddrf {t:04x} 128 {rng.choice([S.MAGIC, rng.getrandbits(32)])}"
    return f"stun {k} {t:04x}"


def typed_readback(line):
    """the accessor matching an append op's kind (value must read back identical)"""
    w = line.split()
    if w[1] != "app":
        return None
    t, k = w[2], w[3]
    if k == "u32":
        return f"stun m32 {t}"
    if k == "u64":
        return f"stun m64 {t}"
    if k == "flag":
        return f"stun mflag {t}"
    if k in ("bytes",):
        return f"stun mfind {t}"
    if k == "str":
        return f"stun mstr {t} 4096"
    if k == "addr":
        return f"stun maddr {t} 128"
    if k == "xaddr":
        return f"stun mxaddr {t} 128"
    if k == "xaddrf":
        return f"stun mxaddrf {t} 128 {w[8]}"
    if k == "err":
        return "stun merr"
    if k == "sw":
        return "stun mstr 8022 4096"
    return None


def gen_session(rng, cls=None, method=None, cfg=None, cap=None, with_key=None):
    compat, flags = rand_cfg(rng) if cfg is None else cfg
    cap = rand_cap(rng) if cap is None else cap
    if cls is None:
        cls, method = S.rand_class_method(rng)
    lines = ["stun cfg none 0" if compat is None else f"stun cfg {compat} {flags:x}"]
    txid = S.rand_txid(rng, cookie=(rng.random() < 0.8 if compat in (None, S.RFC5389, S.MSICE2) else rng.random() < 0.5))
    lines.append(f"stun init {cap} {cls} {method} {txid.hex()}")
    nops = rng.choice([0, 1, 2, 3, 5, 8, 12, 24, rng.randrange(0, 25)])
    room = max(0, cap - 20)
    apps = []
    for _ in range(nops):
        l = rand_append(rng, cap, room)
        lines.append(l)
        apps.append(l)
        w = l.split()
        if w[1] == "app" and w[3] == "bytes":
            room = max(0, room - 4 - len(S.unhx(w[4])))
        else:
            room = max(0, room - 12)
        if rng.random() < 0.25:
            lines.append(readback_line(rng, int(rng.choice(apps).split()[2], 16) if rng.random() < 0.8 else rand_type(rng)))
    if HAVE_FIN and compat is not None and (with_key if with_key is not None else rng.random() < 0.6):
        key = "null" if rng.random() < 0.35 else S.hx(S.rand_bytes(rng, rng.choice([1, 8, 16, 20, 64, 65, 100])))
        lines.append(f"stun fin {key}")
    # every appended value read back through the matching accessor, plus generic lookups
    seen = set()
    for l in apps:
        rb = typed_readback(l)
        if rb and rb not in seen:
            seen.add(rb)
            lines.append(rb)
        if rng.random() < 0.3:
            lines.append(f"stun mfind {l.split()[2]}")
    for _ in range(rng.randrange(0, 3)):
        lines.append(readback_line(rng, rand_type(rng)))
    return lines


def gen_usage_session(rng):
    """usage-level builders (ICE connectivity check, binding request / keepalive) into buffers 0..2048"""
    compat = rng.randrange(4)
    flags = rng.choice([0, S.F_SHORT, S.F_SHORT | S.F_FPR, S.F_LONG, S.F_SW | S.F_FPR, S.F_NOALIGN | S.F_SHORT, rng.randrange(512)])
    lines = [f"stun agent {compat} {flags:x} all {rng.choice(['nosw', 'nosw', S.hx(b'verif')])}"]
    for _ in range(rng.randrange(1, 5)):
        cap = rng.choice([0, 1, 3, 4, 19, 20, 24, 27, 28, 44, 52, 60, 64, 100, 2048, rng.randrange(0, 2049), rng.randrange(0, 120)])
        txid = S.rand_txid(rng, True).hex()
        k = rng.random()
        if k < 0.3:
            fam = rng.choice(["4", "6", "7"])
            ip = S.hx(S.rand_bytes(rng, 16 if fam == "6" else 4))
            lines.append(rng.choice([
                f"stun uturn {cap} {txid} 0 {rng.randrange(4)} {rng.choice([-1, 0, 1000])} {rng.choice([-1, 0, 600])} "
                f"{rng.choice(['null', '6162'])} {rng.choice(['null', '70617373'])} {rng.randrange(5)}",
                f"stun uturnref {cap} {txid} 0 {rng.choice([-1, 0, 600])} {rng.choice(['null', '6162'])} "
                f"{rng.choice(['null', '70617373'])} {rng.randrange(5)}",
                f"stun uturnperm {cap} {txid} {rng.choice(['null', '6162'])} {rng.choice(['null', '70617373'])} "
                f"{rng.choice(['null', '7265616c6d'])} {rng.choice(['null', '6e6f6e6365'])} {fam} {rng.getrandbits(16)} {ip} {rng.randrange(5)}"]))
        elif k < 0.6:
            lines.append(f"stun ucc {cap} {txid} {rng.choice(['null', '-', '6162', S.hx(S.rand_bytes(rng, rng.randrange(1, 40)))])} "
                         f"{rng.choice(['null', '-', '70617373'])} {rng.randrange(2)} {rng.randrange(2)} "
                         f"{rng.getrandbits(32)} {rng.getrandbits(64)} {rng.choice(['null', '-', '61', '6162636465'])} {rng.randrange(4)}")
        elif k < 0.8:
            lines.append(f"stun ubind {cap} {txid}")
        else:
            lines.append(f"stun ukeep {cap} {txid}")
        for _ in range(rng.randrange(0, 3)):
            lines.append(readback_line(rng, rng.choice([S.USERNAME, S.PRIORITY, S.CONTROLLING, S.CONTROLLED, S.MI, S.FPR, S.USE_CAND])))
    return lines


def gen_reply_session(rng):
    """the reply builder (stun_usage_ice_conncheck_create_reply) for requests with USERNAMEs of 1..513 bytes, in the four ICE
    dialects, into output buffers around every size at which an attribute stops fitting"""
    from checks.C04 import agent_line
    compat = rng.randrange(4)
    flags = rng.choice([S.F_SHORT, S.F_SHORT | S.F_FPR, S.F_SHORT | S.F_NOALIGN, S.F_SHORT | S.F_SW | S.F_FPR])
    ulen = rng.choice([1, 2, 4, 36, 37, 40, 64, 100, 255, 513])
    user = bytes(rng.randrange(33, 127) for _ in range(ulen))
    pw = b"pass"
    extra = [(S.PRIORITY, b"\0\0\1\0"), (rng.choice([S.CONTROLLING, S.CONTROLLED]), struct.pack(">Q", rng.getrandbits(64)))]
    m = S.authentic(rng, compat, flags, 0, 1, S.rand_txid(rng, True), user, None, None, pw, extra)
    lines = [agent_line(compat, flags), f"stun val {S.hx(m)} {user.hex()}={pw.hex()}"]
    base = 20 + 12 + 4 + ulen + (-ulen % 4)
    caps = sorted({max(0, base + d) for d in rng.sample(range(-24, 64), 10)} | {rng.randrange(0, 2049) for _ in range(3)})
    for cap in caps:
        fam = rng.choice([4, 4, 6])
        ip = S.rand_bytes(rng, 4 if fam == 4 else 16)
        lines.append(f"stun ureply {cap} {fam} {rng.getrandbits(16)} {S.hx(ip)} {rng.choice([16, 28, 128])} "
                     f"{rng.randrange(2)} {rng.getrandbits(64)} {rng.randrange(4)}")
    return lines


def reply_oracle(session, out):
    """a reply reported complete (plen > 0) fits the buffer, is well-formed and echoes the request's USERNAME"""
    req = None
    flags = 0
    for line, o in zip(session, out):
        w = line.split()
        if w[1] == "agent":
            flags = int(w[3], 16)
        if w[1] == "val" and o.startswith("status 0"):
            req = S.unhx(w[2])
        if w[1] != "ureply" or not o.startswith("ret") or req is None:
            continue
        ow = o.split()
        plen, cap = int(ow[3]), int(w[2])
        if "CANARY" in o:
            return f"{line[:60]}: bytes outside the output buffer were modified"
        if plen == 0:
            continue
        if plen > cap:
            return f"{line[:60]}: reply length {plen} exceeds the buffer ({cap})"
        buf = S.unhx(ow[7])[:plen]
        padded = not (flags & S.F_NOALIGN)
        if S.verdict(buf, padded) != len(buf):
            return f"{line[:60]}: the finished reply of {plen} bytes is not a well-formed STUN message"
        ra, qa = S.attrs_of(buf, padded), S.attrs_of(req, padded)
        qu = [(o_, l_) for t, o_, l_ in qa if t == S.USERNAME]
        ru = [(o_, l_) for t, o_, l_ in ra if t == S.USERNAME]
        is_success = struct.unpack(">H", buf[:2])[0] == 0x0101      # a 487 role-conflict error reply does not echo it
        if is_success and qu and (not ru or buf[ru[0][0]:ru[0][0] + ru[0][1]] != req[qu[0][0]:qu[0][0] + qu[0][1]]):
            return (f"{line[:60]}: reply of {plen} bytes reported complete but the request's {qu[0][1]}-byte USERNAME is "
                    f"{'missing' if not ru else 'different'}")
    return None


def sessions_for(tier, rng):
    sessions, kinds = [], {}

    def add(kind, s):
        sessions.append(s)
        kinds[kind] = kinds.get(kind, 0) + 1
    quick = tier == "quick"
    for _ in range(9000 if quick else 60000):
        add("random-seq", gen_session(rng))
    # all classes x a method set x 4 compat modes (+ no agent) x sampled flags, with and without key
    methods = [1, 3, 4, 6, 9, 0xfff] if quick else [0, 1, 2, 3, 4, 5, 6, 7, 8, 9, 0x80, 0xfff]
    for cls in range(4):
        for method in methods:
            for compat in (0, 1, 2, 3):
                for wk in (False, True):
                    flags = rng.choice([0, S.F_SHORT, S.F_LONG, S.F_FPR | S.F_SHORT, S.F_NOALIGN, rng.randrange(512)])
                    add("class-method-compat", gen_session(rng, cls, method, (compat, flags), None, wk))
    for _ in range(2000 if quick else 12000):
        add("usage-builders", gen_usage_session(rng))
    for _ in range(600 if quick else 6000):
        add("reply-builder", gen_reply_session(rng))
    # every cap 0..2048 (thorough: for 200 sequences; quick: one pass with a stride)
    step = 3 if quick else 1
    for rep in range(1 if quick else 8):
        for cap in range(0, 2049, step):
            add("cap-sweep", gen_session(rng, cap=cap))
    return sessions, kinds


# ----------------------------------------------------------------------------- oracle
def expected_value(w, txid):
    """value bytes an append op must produce (from the API's documented meaning), or None = any"""
    k = w[3]
    if k == "bytes":
        return S.unhx(w[4])
    if k == "flag":
        return b""
    if k == "u32":
        return struct.pack(">I", int(w[4]) & 0xffffffff)
    if k == "u64":
        return struct.pack(">Q", int(w[4]) & (2 ** 64 - 1))
    if k == "str":
        return S.unhx(w[4]).split(b"\0")[0]
    if k in ("addr", "xaddr", "xaddrf"):
        fam, port, ip = int(w[4]), int(w[5]), S.unhx(w[6])
        if fam not in (4, 6):
            return None
        n = 4 if fam == 4 else 16
        ip = (ip + b"\0" * n)[:n]
        if k != "addr":
            ck = S.MAGIC if k == "xaddr" else int(w[8])
            port ^= (ck >> 16) & 0xffff
            key = struct.pack(">I", ck) if fam == 4 else txid
            ip = bytes(a ^ b for a, b in zip(ip, key))
        return bytes([0, 1 if fam == 4 else 2]) + struct.pack(">H", port) + ip
    if k == "err":
        return None   # class/number checked separately, phrase is the library's
    if k == "sw":
        if w[4] == "null":
            return None
        s = S.unhx(w[4]).decode()
        return s[:128].encode()
    return None


def oracle(session, out):
    compat, flags = None, 0
    cap = None
    inited = False
    prev = None        # previous buffer bytes
    plen = None
    txid = b""
    attrs = []         # (wire type, value offset, length field) of successful appends
    for line, o in zip(session, out):
        w = line.split()
        op = w[1]
        if "CANARY-DAMAGED" in o:
            return f"{line[:80]}: bytes outside the caller's buffer were modified (canary damaged)"
        if op == "cfg":
            compat, flags = (None, 0) if w[2] == "none" else (int(w[2]), int(w[3], 16))
            continue
        if op == "agent":
            compat, flags = int(w[2]), int(w[3], 16)
            continue
        if op in ("ucc", "ubind", "ukeep", "uturn", "uturnref", "uturnperm"):
            ow = o.split()
            if ow[0] != "ret":
                return f"{line[:80]}: unexpected output {o[:80]!r}"
            cap = int(w[2])
            ret = int(ow[1])
            buf = S.unhx(ow[7])
            padded = not (flags & S.F_NOALIGN)
            if len(buf) != cap:
                return f"{op}: buffer dump has {len(buf)} bytes, cap is {cap}"
            if ret > cap:
                return f"{op} returned {ret} for a {cap}-byte buffer"
            if ret == 0:
                inited = False
                prev, plen, attrs = buf, None, []
                if cap < 20 and buf != b"\xaa" * cap:
                    return f"{op} into {cap} bytes returned 0 but wrote to the buffer"
                continue
            if ow[3] != str(ret) or ow[5] != str(ret):
                return f"{op} returned {ret}: message length {ow[3]}, library validation {ow[5]}"
            if S.verdict(buf[:ret], padded) != ret:
                return f"{op}: independent parser rejects the built message"
            if buf[ret:] != b"\xaa" * (cap - ret):
                return f"{op}: bytes beyond the message end were modified"
            inited = True
            txid = buf[4:20]
            prev, plen, attrs = buf, ret, S.attrs_of(buf[:ret], padded)
            continue
        padded = not (compat is not None and flags & S.F_NOALIGN)
        if op == "init":
            cap = int(w[2])
            ow = o.split()
            buf = S.unhx(ow[7])
            if len(buf) != cap:
                return f"init: buffer dump has {len(buf)} bytes, cap is {cap}"
            inited = ow[1] == "1"
            if inited != (cap >= 20):
                return f"init into {cap} bytes returned {ow[1]}"
            if not inited and buf != b"\xaa" * cap:
                return "failed init modified the buffer"
            txid = S.unhx(w[5])
            if inited:
                hdr = struct.pack(">HH", S.msg_type(int(w[3]) & 3, int(w[4]) & 0xfff), 0) + txid
                if int(w[3]) < 4 and int(w[4]) < 0x1000 and buf[:20] != hdr:
                    return f"init wrote header {buf[:20].hex()}, RFC encoding is {hdr.hex()}"
                if buf[20:] != b"\xaa" * (cap - 20):
                    return "init wrote beyond the 20-byte header"
            prev, plen, attrs = buf, 20, []
            continue
        if op in ("app", "raw", "fin"):
            if not inited:
                if o != "bad-op":
                    return f"builder op on an uninitialised message answered {o!r}"
                continue
            ow = o.split()
            if ow[0] != "ret":
                return f"{line[:80]}: unexpected output {o[:80]!r}"
            ret = int(ow[1])
            nlen = int(ow[3])
            vl = ow[5]
            buf = S.unhx(ow[7])
            if len(buf) != cap:
                return "buffer dump size changed"
            if op == "fin":
                why = fin_oracle(w, ow, ret, nlen, vl, buf, prev, plen, cap, compat, flags, padded)
                if why:
                    return why
                # a finish that returns 0 may already have appended MESSAGE-INTEGRITY (the state of the
                # message is then unspecified, but it stays inside the buffer): re-read the attributes
                if nlen > cap:
                    return f"fin: message length {nlen} exceeds the buffer size {cap}"
                if vl == str(nlen) and S.verdict(buf[:nlen], padded) == nlen:
                    attrs = S.attrs_of(buf[:nlen], padded)
                elif ret != 0:
                    return "finished message is not well formed"
                prev, plen = buf, nlen
                continue
            ok_ret = (ret == 0) if op == "app" else (ret != 0)
            if not ok_ret:
                if op == "app" and ret not in (2, 3, 4):
                    return f"append returned unknown code {ret}"
                if buf != prev or nlen != plen:
                    return f"{line[:80]}: failed append (ret {ret}) changed the message"
                if ret == 3 or op == "raw":
                    # "either fits or reports lack of space": lack of space only when it does not fit
                    ev = expected_value(w, txid[:16]) if op == "app" else b"\0" * int(w[3])
                    if ev is not None:
                        need = 4 + len(ev) + (S.pad4(len(ev)) if padded else 0)
                        if plen + need <= cap:
                            return f"{line[:80]}: reported no space although {need} bytes fit into {cap - plen}"
                continue
            # success
            if nlen > cap:
                return f"{line[:80]}: message length {nlen} exceeds the buffer size {cap}"
            if nlen < plen + 4:
                return f"{line[:80]}: message length went from {plen} to {nlen}"
            if buf[nlen:] != prev[nlen:]:
                return f"{line[:80]}: bytes beyond the new message end were modified"
            if buf[:2] != prev[:2] or buf[4:plen] != prev[4:plen]:
                return f"{line[:80]}: earlier message bytes were modified"
            if struct.unpack(">H", buf[2:4])[0] != nlen - 20:
                return f"{line[:80]}: header length field {struct.unpack('>H', buf[2:4])[0]} != {nlen - 20}"
            wt, lf = struct.unpack(">HH", buf[plen:plen + 4])
            t_api = int(w[2], 16) if op == "raw" or w[3] not in ("err", "sw") else (S.ERROR_CODE if w[3] == "err" else S.SOFTWARE)
            if wt != S.swap_oc2007(t_api, compat):
                return f"{line[:80]}: attribute type on the wire is {wt:04x}"
            ev = expected_value(w, txid[:16]) if op == "app" else None
            vlen = nlen - plen - 4
            if ev is not None:
                cookie = txid[:4] == struct.pack(">I", S.MAGIC)
                explf = len(ev) if (cookie or not padded) else len(ev) + S.pad4(len(ev))
                if lf != explf:
                    return f"{line[:80]}: attribute length field {lf}, expected {explf}"
                if buf[plen + 4:plen + 4 + len(ev)] != ev:
                    return f"{line[:80]}: value bytes {buf[plen + 4:plen + 4 + len(ev)].hex()} != appended {ev.hex()}"
                pad = S.pad4(len(ev)) if padded else 0
                if vlen != len(ev) + pad:
                    return f"{line[:80]}: attribute occupies {vlen} bytes, expected {len(ev) + pad}"
                if buf[plen + 4 + len(ev):nlen] != b"\0" * pad:
                    return f"{line[:80]}: padding bytes are not zero"
            if op == "app" and w[3] == "err":
                code = int(w[4])
                if buf[plen + 4:plen + 8] != bytes([0, 0, (code // 100) & 0xff, code % 100]):
                    return f"{line[:80]}: ERROR-CODE header {buf[plen + 4:plen + 8].hex()}"
            if op == "raw" and ret != plen + 4:
                return f"raw append returned offset {ret}, expected {plen + 4}"
            attrs.append((wt, plen + 4, lf))
            # well-formedness: the library's own validation and the independent parser
            if vl != str(nlen):
                return f"{line[:80]}: the library's own length validation of the built message says {vl} (length {nlen})"
            if S.verdict(buf[:nlen], padded) != nlen:
                return f"{line[:80]}: independent parser rejects the built message: {S.verdict(buf[:nlen], padded)}"
            prev, plen = buf, nlen
            continue
        if op[0] == "m":
            if not inited:
                if o != "bad-op":
                    return f"accessor on an uninitialised message answered {o!r}"
                continue
            if o == "notvalid":
                return f"{line}: built message is not valid for the library's accessors"
            name = op[1:]
            t = S.ERROR_CODE if name == "err" else int(w[2], 16)
            exp = S.ref_find(attrs, t, compat)
            if name == "find":
                got = None if o == "none" else tuple(int(x) for x in o.split())
                if got != exp:
                    return f"{line}: find returned {got}, appended attributes say {exp}"
                continue
            wn = ["stun", "get" + name, "<pkt>"] + w[2:]
            why = accessor_oracle(wn, o, prev, exp)
            if why:
                return f"{line}: read-back mismatch: {why}"
            # identity with the appended value is implied: the bytes at `exp` were checked against
            # the appended value when the append succeeded
    return None


def fin_oracle(w, ow, ret, nlen, vl, buf, prev, plen, cap, compat, flags, padded):
    """finishing either yields a length within the buffer or zero; the finished message passes the
    library's validation and the independent parser; M-I / FINGERPRINT are what RFC says"""
    if ret == 0:
        # bytes beyond the old end may have been touched by a partly appended M-I; never beyond cap
        return None
    if ret > cap:
        return f"finish returned {ret} for a {cap}-byte buffer"
    if ret != nlen:
        return f"finish returned {ret} but the message length is {nlen}"
    if buf[4:plen] != prev[4:plen] or buf[:2] != prev[:2]:
        return "finish modified earlier message bytes"
    if buf[nlen:] != prev[nlen:]:
        return "finish modified bytes beyond the message end"
    if vl != str(nlen):
        return f"finished message fails the library's own length validation: {vl}"
    if S.verdict(buf[:nlen], padded) != nlen:
        return "finished message rejected by the independent parser"
    return None


def run(tier, seed):
    chk = vlib.Check("C07", tier, seed)
    chk.cov["trusted_base"] = TRUSTED
    chk.assumptions = ["well-formedness: cap <= 65535 (property range 0..2048)",
                       "software strings are valid UTF-8 (API contract); appended data lies in memory (length < 2^63)"]
    st = vlib.std_pipeline(chk, MODULE, THEOREMS)
    diverged, ofail = [], []
    if st["libs"]:
        ok, exe, log = vlib.build_harness("stun_drv", multidef=True)
        if not ok:
            chk.note("harness build failed: " + log[-1500:])
            st["libs"] = False
            st["log"] = log
        else:
            gen, kinds = sessions_for(tier, chk.rng)
            corpus = S.load_corpus(vlib.ROOT, "C07")
            # "every finished message passes the library's own validation": requests built and finished by the library for every
            # compatibility x usage-flag combination, validated by an identically configured agent (generator and oracle shared with C04)
            from checks import C04 as V
            lib = [V.s_libbuilt(chk.rng) for _ in range(500 if tier == "quick" else 6000)] + \
                  [V.s_libbuilt(chk.rng, compat, flags) for compat in range(4) for flags in range(0, 512, 2 if tier == "quick" else 1)]
            Ss = corpus + gen + lib
            outs, errs = vlib.run_impl(exe, Ss)
            rets, opk = {}, {}
            distinct = set()
            nev = 0
            for i, (s, o) in enumerate(zip(Ss, outs)):
                if o is None:
                    ofail.append({"session": s, "why": "implementation crashed / aborted (sanitizer report?)",
                                  "stderr": errs.get(i, ("", 0, ""))[2][-1500:]})
                    continue
                if i >= len(corpus) + len(gen):
                    why = V.finish_validate_oracle(s, o)        # library-built request sessions (C04's line grammar)
                else:
                    why = oracle(s, o) or reply_oracle(s, o)
                if why:
                    ofail.append({"session": s, "impl_out": [x[:300] for x in o], "why": why})
                for line, x in zip(s, o):
                    w = line.split()
                    if w[1] in ("ucc", "ubind", "ukeep", "uturn", "uturnref", "uturnperm"):
                        nev += 1
                        opk[w[1]] = opk.get(w[1], 0) + 1
                        r = x.split()[1] if x.startswith("ret") else x
                        rk = f"{w[1]}:{'ok' if r != '0' else '0'}"
                        rets[rk] = rets.get(rk, 0) + 1
                    if w[1] in ("app", "raw", "fin"):
                        nev += 1
                        k = w[1] if w[1] != "app" else "app-" + w[3]
                        opk[k] = opk.get(k, 0) + 1
                        r = x.split()[1] if x.startswith("ret") else x
                        rk = f"{w[1]}:ret{r}" if w[1] == "app" else f"{w[1]}:{'ok' if r != '0' else '0'}"
                        rets[rk] = rets.get(rk, 0) + 1
                        if x.startswith("ret") and ((w[1] == "app" and r == "0") or (w[1] != "app" and r != "0")):
                            distinct.add((s[1], line))
                    elif w[1][0] == "m":
                        nev += 1
                        opk["readback"] = opk.get("readback", 0) + 1
            if os.path.exists(vlib.model_exe()):
                diverged, total = vlib.diff_sessions(exe, Ss)
            chk.cov["evaluations"] = nev
            chk.cov["traces_validated_against_impl"] = len(Ss) - len(diverged)
            chk.cov["distinct_nontrivial"] = len(distinct)
            chk.cov["rule"] = ("one evaluation = one builder op or read-back; non-trivial = distinct (init line, op) pairs whose "
                               "append/finish succeeded on the real library")
            chk.cov["samples"] = [[l[:120] for l in Ss[len(corpus)][:6]], [l[:120] for l in Ss[-1][:6]]]
            caps = [int(s[1].split()[2]) for s in gen if len(s) > 1 and s[1].split()[2].isdigit() and len(s[1].split()[2]) < 8]
            chk.cov["generator_distribution"] = {
                "session_kinds": kinds, "op_kinds": opk, "result_kinds": rets, "corpus": len(corpus),
                "caps": {"min": min(caps), "max": max(caps), "distinct": len(set(caps)),
                         "not_multiple_of_4": sum(1 for c in caps if c % 4)}}
    return conclude(chk, st, diverged, ofail, STREAM)


def replay(path):
    r = json.load(open(path))
    s = r.get("session")
    if not s:
        print(json.dumps(r, indent=1)[:4000]); return 0
    vlib.ensure_libs(); vlib.extract(); vlib.lake_build(["nicemodel"])
    ok, exe, log = vlib.build_harness("stun_drv", multidef=True)
    io, rc, err = vlib.run_lines(exe, ["reset"] + s)
    mo, _, _ = vlib.run_lines(vlib.model_exe(), ["reset"] + s)
    bad = 0
    for k, l in enumerate(["reset"] + s):
        a = io[k] if k < len(io) else "<crashed>"
        b = mo[k] if k < len(mo) else "<none>"
        if a != b:
            bad += 1
            print(f"{l[:100]}\n   impl : {a[:200]}\n   model: {b[:200]}")
    if len(io) < len(s) + 1:
        print("implementation died:", err[-1500:]); return 1
    why = oracle(s, io[1:])
    print("oracle:", why, "| differing lines:", bad)
    return 1 if (why or bad) else 0
