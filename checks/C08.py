"""C08 — Pseudo-TCP delivers exactly the bytes written, in order, then end-of-stream.

Generators, harness plumbing and oracles are shared with checks/C10.py (pseudo-TCP machinery)."""
import json, os, time
from lib import vlib
from checks.common import conclude
from checks import C10 as P

MODULE = "Nice.Props.C08Stream"      # imports Nice.Props.C08 (component lemmas) and adds the end-to-end theorems
THEOREMS = [f"Nice.Props.C08.{t}" for t in (
    "C08_fifo_write_appends",
    "C08_fifo_read_takes",
    "C08_fifo_roundtrip",
    "C08_sender_payload_from_ring",
    "C08_receiver_store_keeps_committed_partial",
    "C08_out_of_order_store_keeps_committed",
    "C08_eos_requires_in_sequence_fin",
    # end-to-end over the concrete model with a ghost stream (Nice/Proofs/PTcpStream*.lean)
    "C08_recv_stream_prefix_partial", "C08_eos_after_all_data_partial", "C08_recv_eos_means_all_read_partial",
    "C08_handshake_establishes_invariant", "C08_recv_stream_prefix_from_init_partial",
    "C08_sender_segments_from_stream", "C08_send_ring_is_stream_suffix", "C08_committed_bytes_are_stream")] + [
    # the end-of-stream predicate the E theorems speak about IS the code's (regenerated from pseudotcp.c, Props/C10Kernels)
    "Nice.Props.C10Kernels.C10_model_has_received_fin_is_code", "Nice.Props.C10Kernels.C10_is_closed_remotely_is_code",
    "Nice.Props.C10Kernels.C10_fin_ack_implies_both_fins"]
TRUSTED = P.TRUSTED[:3] + [
    "end-to-end theorems (N-recv, E, N-send) are proved about the hand-written, differential-tested model Nice/Model/PTcp.lean: "
    "for ANY sequence of model operations whose packets are slices of the peer's stream W (any order, duplicates, loss), what "
    "recv has returned is a prefix of W, a FIN-received state means all of W is committed, and every segment a socket emits "
    "is a slice of the bytes its send() accepted. They are `_partial`: streams < 2^31 bytes, the receive ring never smaller than "
    "the 7-byte connect message, and from Sock.init only under GoodRun (rcv_nxt = 0 implies LISTEN/SYN-SENT/CLOSED): without "
    "it there is a kernel-checked counterexample, reproduced on the C code (a connect reply whose timestamp echo lies in the "
    "future leaves an ESTABLISHED socket with rcv_nxt = 0; data stored then is shifted by the later connect message). That needs "
    "a misbehaving peer or a clock running backwards, which is outside C08's quantifier; recorded in DESIGN.md as an observation. "
    "The two-socket composition (sender CTL/FIN placement) and liveness are not proved",
    "stream oracle: bytes accepted by send() (its return value) vs bytes returned by recv(), evaluated on the real code",
    "sequence numbers do not wrap within a connection (streams < 2^31 bytes; ISN is 0 in this code)",
]


def sessions_for(exe, tier, seed):
    n_long, n_short = (170, 140) if tier == "quick" else (2600, 2000)
    base = seed * 1000003

    def long_fn(live, rng):
        S = P.legit_session(live, rng, steps=rng.choice([120, 200, 300]))
        if rng.random() < 0.7 and S.alive():
            # finish the transfer on a loss-free suffix so that end-of-stream is actually reached
            todo = {"l": rng.choice([0, 0, 3000, 70000]), "r": rng.choice([0, 0, 3000])}
            P.c09_heal(S, rng, todo, {"l": len(S.sent["l"]) + todo["l"], "r": len(S.sent["r"]) + todo["r"]},
                       random_close=rng.random() < 0.2, max_ops=5000)
        return S

    def short_fn(live, rng):
        # short schedules around connection setup and teardown (where ordering bugs live)
        S = P.legit_session(live, rng, steps=rng.choice([12, 25, 40]), clean_start=rng.random() < 0.3,
                            params={"nodelay_l": 1, "nodelay_r": 1} if rng.random() < 0.5 else None)
        return S
    A = P.gen_parallel(exe, [f"C08/a/{base + i}" for i in range(n_long)], long_fn)
    B = P.gen_parallel(exe, [f"C08/b/{base + i}" for i in range(n_short)], short_fn)
    # directed: the FIN handshake completes while received bytes are still unread (with and without loss)
    B = B + P.gen_parallel(exe, [f"C08/h/{base + i}" for i in range(max(n_short // 4, 16))],
                           lambda live, rng: P.halfclose_unread_session(live, rng, lossy=rng.random() < 0.5))
    # directed: stale zero window, a little more data, graceful close, FIN overtaking the flushed data
    B = B + P.gen_parallel(exe, [f"C08/w/{base + i}" for i in range(max(n_short // 3, 24))], P.stale_window_close_session)
    return A, B


def run(tier, seed):
    chk = vlib.Check("C08", tier, seed)
    chk.cov["trusted_base"] = TRUSTED
    chk.assumptions = ["end-of-stream oracle applies to sockets with FIN-ACK support (without it the protocol has no "
                       "end-of-stream signal) that did not close their own read side",
                       "a stream is shorter than 2^31 bytes"]
    st = vlib.std_pipeline(chk, MODULE, THEOREMS)
    diverged, ofail = [], []
    if st["libs"]:
        ok, exe, log = vlib.build_harness("ptcp_drv", multidef=True)
        if not ok:
            chk.note("harness build failed: " + log[-1500:])
            st["libs"] = False
            st["log"] = log
        else:
            t0 = time.time()
            corpus = P.run_corpus_scripts(exe, P.load_corpus("C08"), seed)
            A, B = sessions_for(exe, tier, seed)
            allS = [s for _, s in corpus] + A + B
            chk.note(f"{len(allS)} two-socket schedules ({sum(len(S.ops) for S in allS)} operations) generated on the real "
                     f"code in {time.time() - t0:.1f}s")
            reached_eos = 0
            for S in allS:
                c = P.crashed(S)
                why = None if c else (P.oracle_prefix(S) or P.oracle_eos(S))
                if c or why:
                    rec = c or {"session": S.ops, "why": why}
                    k = P.known_match("C08", rec["why"] + " " + rec.get("stderr", ""))
                    if k:
                        chk.known(k.get("text", k.get("id", "")))
                    else:
                        ofail.append(rec)
            sessions = [S.ops for S in allS if not S.live.dead]
            if st["proof"] or os.path.exists(vlib.model_exe()):
                diverged, total = P.retrying(lambda: vlib.diff_sessions(exe, sessions))
            nontrivial = set()
            eos = 0
            for S in allS:
                got = len(S.read["l"]) + len(S.read["r"])
                e = any(ev[1] == "recv" and ev[4] == 0 and ev[3] > 0 for ev in S.events)
                eos += 1 if e else 0
                if got > 0:
                    nontrivial.add(tuple(S.ops))
            chk.cov["evaluations"] = sum(len(S.ops) for S in allS)
            chk.cov["traces_validated_against_impl"] = len(sessions) - len(diverged)
            chk.cov["distinct_nontrivial"] = len(nontrivial)
            chk.cov["rule"] = ("sessions = adaptive two-socket schedules on the real code (connect, writes of 1..70000 bytes, "
                               "reads, deliver/drop/duplicate/reorder/replay of any emitted packet in both directions, "
                               "clock ticks at deadlines and arbitrary times, MTU changes, WritePacket failures, shutdown / "
                               "close), 70% continued on a loss-free suffix until both sides closed; evaluations = operations; "
                               "non-trivial = distinct schedules in which at least one byte reached a reader")
            chk.cov["samples"] = [A[0].ops[:8] if A else [], B[0].ops[:8] if B else []]
            gd = P.histogram(allS)
            gd["schedules_reaching_end_of_stream"] = eos
            gd["bytes_written"] = sum(len(S.sent["l"]) + len(S.sent["r"]) for S in allS)
            gd["bytes_read"] = sum(len(S.read["l"]) + len(S.read["r"]) for S in allS)
            gd["network_events"] = {k: sum(S.kinds.get(k, 0) for S in allS) for k in ("deliver", "deliver-old", "drop")}
            gd["corpus"] = [n for n, _ in corpus]
            chk.cov["generator_distribution"] = gd
    return conclude(chk, st, diverged, ofail, "ptcp_drv:two-socket")


def replay(path):
    r = json.load(open(path))
    s = r.get("session")
    if not s:
        print(json.dumps(r, indent=1)[:4000]); return 0
    vlib.ensure_libs(); vlib.extract(); vlib.lake_build(["nicemodel"])
    ok, exe, log = vlib.build_harness("ptcp_drv", multidef=True)
    io, rc, err = vlib.run_lines(exe, ["reset"] + s)
    mo, _, _ = vlib.run_lines(vlib.model_exe(), ["reset"] + s)
    for k, l in enumerate(["reset"] + s):
        a = io[k] if k < len(io) else "<no output: crashed>"
        b = mo[k] if k < len(mo) else "<no output>"
        print(f"{l[:100]}\n   impl : {a[:300]}\n   model: {b[:300]}{'' if a == b else '   <-- DIFFERENT'}")
    if len(io) < len(s) + 1:
        print("implementation died:", err[-2000:])
        return 1
    S = P.Replayed(s, io[1:])
    why = P.oracle_prefix(S) or P.oracle_eos(S)
    print("oracle:", why)
    return 1 if why else 0
