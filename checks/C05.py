"""C05 — no byte string makes the STUN/TURN message code misbehave."""
import json, os, struct
from lib import vlib
from checks.common import conclude
from checks import stunlib as S
from checks.C04 import table_str, agent_line, rand_flags

MODULE = "Nice.Props.C05"
THEOREMS = [f"Nice.Props.C05.{t}" for t in (
    "C05_no_fault_validate_buffer_length", "C05_no_fault_validate_buffer_length_fast", "C05_no_fault_find",
    "C05_accessor_inside", "C05_no_fault_accessors", "C05_no_fault_xor_accessors", "C05_no_fault_find_unknowns",
    "C05_no_fault_append", "C05_no_fault_agent_validate", "C05_no_fault_finish_message",
    "C05_no_fault_usage_builders", "C05_no_fault_create_reply")]
# not proved in Lean (tie + sanitizers only): no-fault of the TURN usage builders / processors
# (stun_usage_turn_*) and of stun_usage_ice_conncheck_process / stun_usage_bind_process
TRUSTED = [
    "Lean 4 kernel; axioms allowed: propext, Classical.choice, Quot.sound (audited by #print axioms on every run)",
    "hand-written faulting model Nice/Model/Stun/*.lean (every read/write of caller memory bounds checked, asserts as faults), "
    "tied by the stun_drv differential stream",
    "runtime conjunct (no sanitizer report / abort / hang in the compiled C) is OBSERVED by ASan+UBSan on the explored inputs "
    "(packets and vector elements in exactly sized heap blocks, guarded output buffers), not proved",
]
STREAM = "stun_drv:hostile"
# usage builders with output buffers of 0..19 bytes read outside the buffer before fix 8b6e9d4
# (init_request's result was ignored); VERIF_TINY_USAGE_CAPS=0 switches that stream off
TINY_USAGE_CAPS = os.environ.get("VERIF_TINY_USAGE_CAPS", "1") == "1"
# a validater table entry with an empty username makes stun_agent_default_validater call
# memcmp (NULL, p, 0) for packets without USERNAME before fix 64e9ec1; VERIF_EMPTY_USERNAME=0 switches it off
EMPTY_USERNAME = os.environ.get("VERIF_EMPTY_USERNAME", "1") == "1"

LAYOUTS = ["random", "header", "valid-prefix", "zeros", "attr-chain", "mi-last"]


def layout_bytes(rng, n, layout):
    if layout == "random":
        return S.rand_bytes(rng, n)
    if layout == "zeros":
        return bytes(n)
    if layout == "header":          # plausible header whose length field matches n
        b = bytearray(S.rand_bytes(rng, n))
        if n >= 1:
            b[0] &= 0x3f
        if n >= 2 and rng.random() < 0.7:
            b[0:2] = struct.pack(">H", S.msg_type(rng.randrange(4), rng.choice([1, 3, 4])))
        if n >= 4:
            b[2:4] = struct.pack(">H", max(0, n - 20) if rng.random() < 0.8 else rng.randrange(0x10000))
        if n >= 8 and rng.random() < 0.7:
            b[4:8] = struct.pack(">I", S.MAGIC)
        return bytes(b)
    if layout == "valid-prefix":
        m = S.valid_message(rng, rng.random() < 0.7, nmax=6, maxvar=20)
        while len(m) < n:
            m += S.valid_message(rng, True)
        return m[:n]
    if layout == "attr-chain":      # header + zero-length attributes of interesting types
        if n < 20:
            return layout_bytes(rng, n, "header")
        body = b""
        while len(body) + 4 <= n - 20:
            t = rng.choice([S.USERNAME, S.MI, S.FPR, S.REALM, S.NONCE, S.ERROR_CODE, 0x8070, 0x0020, 0x0001, 0x0024])
            l = rng.choice([0, 0, 4, n - 20 - len(body) - 4])
            l = max(0, min(l, n - 20 - len(body) - 4))
            l -= l % 4
            body += struct.pack(">HH", t, l) + S.rand_bytes(rng, l)
        body += bytes(n - 20 - len(body))
        return struct.pack(">HH", S.msg_type(rng.randrange(4), 1), len(body)) + S.rand_txid(rng) + body
    if layout == "mi-last":         # USERNAME/REALM/NONCE then M-I with odd lengths as last attribute
        attrs = [(S.USERNAME, S.rand_bytes(rng, rng.choice([0, 1, 2, 4]))), (S.REALM, S.rand_bytes(rng, rng.choice([0, 1, 4]))),
                 (S.NONCE, b"n")]
        rng.shuffle(attrs)
        attrs = attrs[:rng.randrange(4)] + [(S.MI, S.rand_bytes(rng, rng.choice([0, 1, 4, 19, 20, 21, 24])))]
        m = S.build(rng.randrange(4), 1, S.rand_txid(rng), attrs, True)
        return m[:n] if rng.random() < 0.3 else m
    return b""


def hostile_ops(rng, pkt, light=False):
    """everything the library can be asked about a received byte string"""
    h = S.hx(pkt)
    n = len(pkt)
    ops = []
    for _ in range(1 if light else 2):
        sp = S.rand_split(rng, n, 6, empties=True)
        ops.append(f"stun len {h} split {','.join(map(str, sp))} pad {rng.randrange(2)}")
    tab = rng.choice(["none", "nocb", "6162=70617373", "-=00" if EMPTY_USERNAME else "00=00", "6162=null", "6162=-"])
    if n >= 24 and rng.random() < 0.5:     # key for the packet's own USERNAME, when it parses
        try:
            at = S.attrs_of(pkt, True)
            u = S.ref_find(at, S.USERNAME)
            if u:
                tab = f"{S.hx(pkt[u[0]:u[0] + u[1]])}={S.hx(S.rand_bytes(rng, rng.choice([1, 8, 70])))}"
        except Exception:
            pass
    ops.append(f"stun val {h} {tab}")
    types = [S.USERNAME, S.MI, S.FPR, S.ERROR_CODE, S.XOR_MAPPED, S.MAPPED, 0x8023, rng.randrange(0x10000)]
    rng.shuffle(types)
    for t in types[:2 if light else 4]:
        op = rng.choice(["find", "get32", "get64", "getflag", "getstr", "getaddr", "getxaddr", "getxaddrf", "geterr"])
        if op == "geterr":
            ops.append(f"stun geterr {h}")
        elif op == "getstr":
            ops.append(f"stun getstr {h} {t:04x} {rng.choice([0, 1, 2, 8, 64, 70000])}")
        elif op in ("getaddr", "getxaddr"):
            ops.append(f"stun {op} {h} {t:04x} {rng.choice([0, 1, 8, 15, 16, 27, 28, 128])}")
        elif op == "getxaddrf":
            ops.append(f"stun getxaddrf {h} {t:04x} {rng.choice([16, 28, 128])} {rng.getrandbits(32)}")
        else:
            ops.append(f"stun {op} {h} {t:04x}")
    # usage-level processing and reply construction on whatever the validation left behind
    # (address outputs: the callers' contract is a struct sockaddr_storage; the two-step lookup in the
    # usage code reuses the *addrlen a failed first lookup wrote back, so sizes < 28 are the caller's bug)
    ops.append(f"stun uccproc {rng.choice([28, 128])} {rng.randrange(4)}")
    ops.append(f"stun ubindproc {rng.choice([28, 128])} {rng.choice(['null', '28', '128'])}")
    ops.append(f"stun uturnproc {rng.choice([28, 128])} {rng.choice([28, 128])} {rng.choice(['null', '28', '128'])} {rng.randrange(6)}")
    ops.append(f"stun uturnrefproc {rng.randrange(6)}")
    if not light:
        cap = rng.choice([0, 10, 19, 20, 24, 28, 44, 60, 64, 100, 1300, rng.randrange(0, 1301)])
        fam = rng.choice([4, 4, 6, 7])
        ip = S.rand_bytes(rng, 4 if fam == 4 else 16)
        ops.append(f"stun ureply {cap} {fam} {rng.getrandbits(16)} {S.hx(ip)} {rng.choice([16, 28, 128, 2, 8])} "
                   f"{rng.randrange(2)} {rng.getrandbits(64)} {rng.randrange(4)}")
        ops.append(rng.choice([f"stun iresp {cap}", f"stun ierr {cap} {rng.choice([400, 420, 487, 0, 99999])}",
                               f"stun unk {cap}"]))
        if rng.random() < 0.5:
            ops.append("stun fin " + rng.choice(["null", "70617373"]))
        # TURN requests built from the hostile packet as `previous_response`
        txid = S.rand_txid(rng, True).hex()
        ops.append(rng.choice([
            f"stun uturn {cap} {txid} 1 {rng.randrange(4)} {rng.choice([-1, 0, 7])} {rng.choice([-1, 600])} 6162 70617373 {rng.randrange(5)}",
            f"stun uturnref {cap} {txid} 1 {rng.choice([-1, 0, 600])} 6162 70617373 {rng.randrange(5)}"]))
    return ops


def rand_agent(rng):
    compat = rng.randrange(4)
    flags = rand_flags(rng)
    known = rng.choice(["all", "all", "msoc", "-", "0006,0008,8022"])
    return agent_line(compat, flags, known, rng.choice(["nosw", "nosw", "76"]))


def authentic_request(rng, compat, flags):
    """a request the agent accepts, so that reply construction really runs"""
    user, pw = b"ab", b"pass"
    extra = []
    r = rng.random()
    tie = rng.getrandbits(64)
    if r < 0.4:
        extra.append((S.CONTROLLING, struct.pack(">Q", tie)))
    elif r < 0.8:
        extra.append((S.CONTROLLED, struct.pack(">Q", tie)))
    extra.append((S.PRIORITY, b"\0\0\1\0"))
    if rng.random() < 0.2:
        extra.append((0x0030, b"unk"))          # unknown comprehension-required attribute
    method = 1 if rng.random() < 0.85 else rng.choice([3, 4])
    m = S.authentic(rng, compat, flags, 0, method, S.rand_txid(rng, True), user,
                    b"realm" if flags & S.F_LONG else None, b"nonce" if flags & S.F_LONG else None, pw, extra)
    return m, "6162=70617373", tie


def s_replies(rng, caps):
    compat = rng.randrange(4)
    flags = rng.choice([S.F_SHORT, S.F_SHORT | S.F_FPR, S.F_LONG, S.F_SHORT | S.F_SW | S.F_FPR, S.F_SHORT | S.F_NOALIGN, 0])
    m, tab, tie = authentic_request(rng, compat, flags)
    lines = [agent_line(compat, flags), f"stun val {S.hx(m)} {tab}"]
    for cap in caps:
        fam = rng.choice([4, 4, 6])
        ip = S.rand_bytes(rng, 4 if fam == 4 else 16)
        mytie = rng.choice([tie, tie + 1, max(0, tie - 1), rng.getrandbits(64)]) & (2 ** 64 - 1)
        k = rng.random()
        if k < 0.7:
            lines.append(f"stun ureply {cap} {fam} {rng.getrandbits(16)} {S.hx(ip)} {rng.choice([16, 28, 128])} "
                         f"{rng.randrange(2)} {mytie} {rng.randrange(4)}")
        elif k < 0.8:
            lines.append(f"stun iresp {cap}")
        elif k < 0.9:
            lines.append(f"stun ierr {cap} {rng.choice([400, 401, 420, 487, 500])}")
        else:
            lines.append(f"stun unk {cap}")
        if rng.random() < 0.2:
            lines.append("stun fin null")
    return lines


def s_builders(rng):
    """usage-level builders into small and large buffers"""
    lines = [rand_agent(rng)]
    lo = 0 if TINY_USAGE_CAPS else 20
    for _ in range(rng.randrange(1, 6)):
        cap = rng.choice([lo, lo + 1, lo + 3, lo + 4, max(lo, 19), 20, 24, 27, 28, 44, 60, 100, 1300, rng.randrange(lo, 1301)])
        txid = S.rand_txid(rng, True).hex()
        k = rng.random()
        if k < 0.3:
            fam = rng.choice(["4", "6", "7", "null"])
            ip = S.hx(S.rand_bytes(rng, 16 if fam == "6" else 4))
            lines.append(rng.choice([
                f"stun uturn {cap} {txid} 0 {rng.randrange(4)} {rng.choice([-1, 0, 2 ** 31 - 1])} {rng.choice([-1, 0, 600])} "
                f"{rng.choice(['null', '-', '6162'])} {rng.choice(['null', '70617373'])} {rng.randrange(6)}",
                f"stun uturnref {cap} {txid} 0 {rng.choice([-1, 0, 600])} {rng.choice(['null', '6162'])} "
                f"{rng.choice(['null', '70617373'])} {rng.randrange(6)}",
                f"stun uturnperm {cap} {txid} {rng.choice(['null', '6162'])} {rng.choice(['null', '70617373'])} "
                f"{rng.choice(['null', '7265616c6d'])} {rng.choice(['null', '6e6f6e6365'])} {fam} {rng.getrandbits(16)} {ip} {rng.randrange(5)}"]))
        elif k < 0.5:
            lines.append(f"stun ucc {cap} {txid} {rng.choice(['null', '-', '6162', '61626364656667'])} "
                         f"{rng.choice(['null', '-', '70617373'])} {rng.randrange(2)} {rng.randrange(2)} "
                         f"{rng.getrandbits(32)} {rng.getrandbits(64)} {rng.choice(['null', '-', '61', '6162636465'])} {rng.randrange(4)}")
        elif k < 0.75:
            lines.append(f"stun ubind {cap} {txid}")
        else:
            lines.append(f"stun ukeep {cap} {txid}")
        if rng.random() < 0.4:
            lines.append(f"stun valm {rng.choice(['none', '6162=70617373'])}")
    return lines


def sessions_for(tier, rng):
    sessions, kinds = [], {}

    def add(k, s):
        sessions.append(s)
        kinds[k] = kinds.get(k, 0) + 1
    quick = tier == "quick"
    # 1. every length 0..64 x layouts x several agent configurations
    for n in range(0, 65):
        for layout in LAYOUTS:
            for rep in range(6 if quick else 16):
                pkt = layout_bytes(rng, n, layout)
                add("len0-64:" + layout, [rand_agent(rng)] + hostile_ops(rng, pkt))
    # 2. grammar-aware packets: valid, mutants, prefixes
    for _ in range(8000 if quick else 40000):
        padded = rng.random() < 0.7
        m = S.valid_message(rng, padded)
        r = rng.random()
        if r < 0.5:
            m = S.mutate(rng, m, padded)
        elif r < 0.6:
            m = m[:rng.randrange(len(m) + 1)]
        add("grammar", [rand_agent(rng)] + hostile_ops(rng, m))
    # 3. long byte strings up to 65535
    for _ in range(30 if quick else 200):
        n = rng.choice([2048, 4096, 65535, 65532, 65534, 40000, rng.randrange(2048, 65536)])
        k = rng.random()
        if k < 0.4:
            pkt = S.rand_bytes(rng, n)
        elif k < 0.7:
            body_len = (n - 20) - (n - 20) % 4
            pkt = struct.pack(">HH", 1, body_len) + S.rand_txid(rng, True) + struct.pack(">HH", rng.choice([S.DATA, S.USERNAME, 0x8022]), body_len - 4) + S.rand_bytes(rng, body_len - 4)
        else:
            pkt = S.big_message(rng, True, n)
        add("long", [rand_agent(rng)] + hostile_ops(rng, pkt, light=True))
    # 3b. requests with very many unknown comprehension-required attributes (around and beyond the 256 ids the
    #     UNKNOWN-ATTRIBUTES builder can carry), answered with the 420 builder into large and small buffers
    for _ in range(30 if quick else 300):
        n_unk = rng.choice([1, 200, 255, 256, 257, 258, 300, 301, 600, 1000])
        compat = rng.choice([0, 1, 1, 2])           # incl. cookie-less RFC 3489 (odd counts take the padding path)
        cookie = compat != 0 or rng.random() < 0.5
        body = b"".join(struct.pack(">HH", 0x0040 + (i % 0x3000), 0) for i in range(n_unk))
        pkt = struct.pack(">HH", 1, len(body)) + S.rand_txid(rng, cookie) + body
        lines = [agent_line(compat, rng.choice([0, S.F_IGN])), f"stun val {S.hx(pkt)} none"]
        for cap in rng.sample([20, 100, 532, 540, 1300, 1300, 4000, 9000], 3):
            lines.append(f"stun unk {cap}")
        add("many-unknown-attributes", lines)
    # 4. reply construction for all output sizes 0..1300
    allcaps = list(range(0, 1301))
    if quick:
        for i in range(0, 1301, 13):
            add("reply-caps", s_replies(rng, allcaps[i:i + 13][::2] + [rng.randrange(0, 1301) for _ in range(3)]))
    else:
        for rep in range(6):
            for i in range(0, 1301, 50):
                add("reply-caps", s_replies(rng, allcaps[i:i + 50]))
    # 5. usage-level builders
    for _ in range(1200 if quick else 6000):
        add("usage-builders", s_builders(rng))
    return sessions, kinds


def oracle(session, out):
    """any status is fine; what is returned must lie inside the packet / the caller's buffer"""
    for line, o in zip(session, out):
        w = line.split()
        op = w[1]
        if o.startswith("fault"):
            return f"{line[:100]}: {o}"
        if "CANARY-DAMAGED" in o:
            return f"{line[:100]}: bytes outside the caller's buffer were modified"
        if op == "find" and o not in ("none", "notvalid", "bad-op"):
            off, l = map(int, o.split())
            n = len(S.unhx(w[2]))
            if off + l > n or off < 24:
                return f"find returned offset {off} length {l} for a {n}-byte packet"
        elif op == "getstr" and o.startswith("ret 0"):
            if len(S.unhx(o.split()[3])) >= int(w[4]):
                return f"getstr copied {len(S.unhx(o.split()[3]))} bytes + NUL into {w[4]} bytes"
        elif op in ("ureply",) and o.startswith("ret"):
            ow = o.split()
            if int(ow[3]) > int(w[2]):
                return f"reply length {ow[3]} exceeds the output buffer size {w[2]}"
            if not 0 <= int(ow[1]) <= 8:
                return f"create_reply returned {ow[1]}"
        elif op in ("iresp", "ierr", "unk", "fin", "ucc", "ubind", "ukeep", "uturn", "uturnref", "uturnperm") and o.startswith("ret"):
            ow = o.split()
            cap = len(S.unhx(ow[7]))
            if op in ("unk", "fin", "ucc", "ubind", "ukeep", "uturn", "uturnref", "uturnperm") and int(ow[1]) > cap:
                return f"{op} returned length {ow[1]} for a {cap}-byte buffer"
        elif op in ("val", "valm") and o.startswith("status"):
            if not 0 <= int(o.split()[1]) <= 9:
                return f"validation status {o.split()[1]}"
    return None


def run(tier, seed):
    chk = vlib.Check("C05", tier, seed)
    chk.cov["trusted_base"] = TRUSTED
    chk.assumptions = ["vectored pre-check: total_length = number of bytes in the buffers",
                       "accessors are called on packets that passed validation (their documented precondition)",
                       "usage-level builders: all output sizes 0..1300" if TINY_USAGE_CAPS else
                       "usage-level builders: output buffers of at least 20 bytes",
                       "validater tables hold non-empty usernames (empty ones: reported memcmp(NULL,..,0) finding)"
                       if not EMPTY_USERNAME else "validater tables may hold empty usernames"]
    st = vlib.std_pipeline(chk, MODULE, THEOREMS)
    diverged, ofail = [], []
    if st["libs"]:
        ok, exe, log = vlib.build_harness("stun_drv", multidef=True)
        if not ok:
            chk.note("harness build failed: " + log[-1500:])
            st["libs"] = False
            st["log"] = log
        else:
            gen, kinds = sessions_for(tier, chk.rng)
            corpus = S.load_corpus(vlib.ROOT, "C05")
            Ss = corpus + gen
            outs, errs = vlib.run_impl(exe, Ss, timeout=1200)
            stc, opk = {}, {}
            distinct = set()
            nev = 0
            for i, (s, o) in enumerate(zip(Ss, outs)):
                if o is None:
                    e = errs.get(i, ("", 0, ""))
                    ofail.append({"session": s, "why": "implementation crashed / aborted / hung: " +
                                  ("TIMEOUT" if e[2] == "TIMEOUT" else "sanitizer report or abort"),
                                  "stderr": e[2][-2500:]})
                    continue
                why = oracle(s, o)
                if why:
                    ofail.append({"session": s, "impl_out": [x[:300] for x in o], "why": why})
                for line, x in zip(s, o):
                    w = line.split()
                    if w[1] == "agent":
                        continue
                    nev += 1
                    opk[w[1]] = opk.get(w[1], 0) + 1
                    if w[1] == "val" and x.startswith("status"):
                        k = x.split()[1]
                        stc[k] = stc.get(k, 0) + 1
                        if k not in ("1", "2"):
                            distinct.add(w[2])
                    if w[1] == "ureply" and x.startswith("ret"):
                        k = "reply:" + x.split()[1]
                        stc[k] = stc.get(k, 0) + 1
            if os.path.exists(vlib.model_exe()):
                diverged, total = vlib.diff_sessions(exe, Ss, timeout=1200)
            chk.cov["evaluations"] = nev
            chk.cov["traces_validated_against_impl"] = len(Ss) - len(diverged)
            chk.cov["distinct_nontrivial"] = len(distinct)
            chk.cov["rule"] = ("one evaluation = one library entry point called on a hostile byte string; non-trivial = distinct "
                               "packets that got past the framing check of the real stun_agent_validate")
            chk.cov["samples"] = [[l[:120] for l in Ss[len(corpus)][:5]], [l[:120] for l in Ss[-1][:5]]]
            sizes = [len(S.unhx(l.split()[2])) for s in gen for l in s if l.split()[1] == "val"]
            chk.cov["generator_distribution"] = {
                "session_kinds": kinds, "op_kinds": opk, "result_kinds": stc, "corpus": len(corpus),
                "packet_sizes": {"min": min(sizes), "max": max(sizes), "le64": sum(1 for x in sizes if x <= 64),
                                 "gt2048": sum(1 for x in sizes if x > 2048)}}
    return conclude(chk, st, diverged, ofail, STREAM)


def replay(path):
    r = json.load(open(path))
    s = r.get("session")
    if not s:
        print(json.dumps(r, indent=1)[:4000]); return 0
    vlib.ensure_libs(); vlib.extract(); vlib.lake_build(["nicemodel"])
    ok, exe, log = vlib.build_harness("stun_drv", multidef=True)
    io, rc, err = vlib.run_lines(exe, ["reset"] + s)
    mo, _, _ = vlib.run_lines(vlib.model_exe(), ["reset"] + s)
    bad = 0
    for k, l in enumerate(["reset"] + s):
        a = io[k] if k < len(io) else "<crashed>"
        b = mo[k] if k < len(mo) else "<none>"
        if a != b:
            bad += 1
            print(f"{l[:100]}\n   impl : {a[:200]}\n   model: {b[:200]}")
    if len(io) < len(s) + 1:
        print("implementation died:", err[-2500:]); return 1
    why = oracle(s, io[1:])
    print("oracle:", why, "| differing lines:", bad)
    return 1 if (why or bad) else 0
