"""C15 — Candidate and pair priorities follow RFC 8445 and order the check list."""
import json, os
from lib import vlib
from checks.common import conclude

MODULE = "Nice.Props.C15"
THEOREMS = [f"Nice.Props.C15.{t}" for t in (
    "C15_candidate_formula", "C15_candidate_range", "C15_type_pref_le", "C15_local_pref_value",
    "C15_local_pref_le", "C15_type_dominates", "C15_type_rank", "C15_pair_formula",
    "C15_pair_symmetric", "C15_pair_min_dominates", "C15_insert_sorted", "C15_recalc_sorted",
    "C15_recalc_perm", "C15_list_sorted")] + ["Nice.Props.C15TypePref.C15_model_type_preference_is_code"]
TRUSTED = [
    "Lean 4 kernel; axioms propext, Classical.choice, Quot.sound only (audited every run)",
    "tools/extract.py: nice_candidate_ice_priority_full, nice_candidate_ice_local_preference_full, "
    "nice_candidate_ms_ice_local_preference_full, nice_candidate_pair_priority are REGENERATED from the C source's typed "
    "clang AST on every run; the theorems are about those regenerated definitions (translator additionally differential-tested)",
    "nice_candidate_ice_type_preference is REGENERATED too (Gen.ice_type_preference; tools/extract.py FIELD_KERNELS + FIELD_SUBST: "
    "candidate->type, candidate->transport and the test `c->turn->type == NICE_RELAY_TYPE_TURN_UDP` become parameters, each textual "
    "substitution must match the current source exactly or extraction fails closed) and the model's typePreference, about which the "
    "ranking theorems are stated, is PROVED equal to it for every candidate and flag combination (Props/C15TypePref)",
    "hand-written: the type/transport switches of candidate.c and the check-list operations (Nice/Model/Prio.lean), tied by "
    "the kern_drv `prio` and `plist` streams (real nice_candidate_ice_priority with a scripted interface list; real "
    "conn_check_compare + g_slist_insert_sorted/g_slist_sort)",
    "check-list order inside a live agent (recalculate_pair_priorities at role switch, renomination) is additionally "
    "inspected after every dispatch in the simulation stream (sim_drv) when that check runs",
    "single excluded input of C15_pair_formula: G = D = 2^32-1, whose RFC value does not fit in 64 bits",
]

B32 = [0, 1, 2, 3, 0x7f, 0x80, 0xff, 0x100, 0xffff, 0x10000, 0x7effffff, 0x7fffffff, 0x80000000,
       0x80000001, 0xfffffffe, 0xffffffff]


def pair_spec(G, D):
    return (2 ** 32 * min(G, D) + 2 * max(G, D) + (1 if G > D else 0))


def ice_spec(tp, lp, c):
    return 2 ** 24 * tp + 2 ** 8 * lp + (256 - c)


TYPE_PREF = {0: 120, 2: 110, 1: 100, 3: None}  # HOST, PRFLX, SRFLX, RELAYED


def sessions_for(tier, rng):
    S = []
    # 1. pair priority: boundary-exhaustive + random
    vals = set(B32)
    for k in range(0, 33):
        for d in (-1, 0, 1):
            v = 2 ** k + d
            if 0 <= v < 2 ** 32:
                vals.add(v)
    vals = sorted(vals)
    pairs = [(a, b) for a in vals for b in vals]
    nrand = 20000 if tier == "quick" else 400000
    for _ in range(nrand):
        k = rng.choice([8, 16, 24, 31, 32])
        pairs.append((rng.randrange(0, 2 ** k), rng.randrange(0, 2 ** rng.choice([8, 16, 24, 31, 32]))))
    chunk = 2000
    for i in range(0, len(pairs), chunk):
        S.append([f"k pair_priority {a} {b}" for a, b in pairs[i:i + chunk]])
    # 2. candidate priority kernels
    L = []
    for tp in (0, 1, 10, 20, 30, 50, 52, 55, 60, 100, 105, 110, 120, 126, 127, 255):
        for lp in (0, 1, 63, 64, 8191, 8192, 65535):
            for c in (1, 2, 128, 255, 256):
                L.append(f"k ice_priority_full {tp} {lp} {c}")
    for _ in range(3000 if tier == "quick" else 50000):
        L.append(f"k ice_priority_full {rng.randrange(0, 256)} {rng.randrange(0, 65536)} {rng.randrange(1, 257)}")
    for d in range(8):
        for t in range(8):
            for o in (0, 1, 31, 62, 63):
                L.append(f"k ice_local_preference_full {d} {t} {o}")
                for tr in (0, 6, 15):
                    L.append(f"k ms_ice_local_preference_full {tr} {d} {t} {o}")
    S.append(L)
    # 3. full candidate tuples through the real nice_candidate_ice_priority
    L = []
    comps = (1, 2, 3, 255, 256) if tier == "quick" else range(1, 257)
    ips = (0, 1, 63) if tier == "quick" else range(0, 64)
    for kind in ("ice", "msice"):
        for ty in range(4):
            for tr in range(4):
                for comp in comps:
                    for tu in (0, 1):
                        for tpref in ((0, 7) if tier == "quick" else range(8)):
                            for ip in ips:
                                for rel in (0, 1):
                                    for nat in (0, 1):
                                        if rng.random() < (0.15 if tier == "quick" else 0.03) or comp in (1, 256):
                                            L.append(f"prio {kind} {ty} {tr} {comp} {tu} {tpref} {ip} {rel} {nat}")
    for i in range(0, len(L), 4000):
        S.append(L[i:i + 4000])
    # 4. check-list histories
    for _ in range(150 if tier == "quick" else 3000):
        L = []
        for _ in range(rng.randrange(1, 25)):
            if rng.random() < 0.2:
                L.append("plist switch")
            else:
                mk = lambda: rng.choice([rng.randrange(0, 2 ** 31), rng.choice(B32), rng.randrange(0, 2 ** 32),
                                         rng.choice([5, 5, 7, 7, 9])])
                L.append(f"plist add {mk()} {mk()}")
        S.append(L)
    return S


def oracle(session, out):
    """property predicate on the implementation's outputs"""
    for line, o in zip(session, out):
        w = line.split()
        if w[0] == "k" and w[1] == "pair_priority":
            G, D = int(w[2]), int(w[3])
            if (G, D) == (2 ** 32 - 1, 2 ** 32 - 1):
                continue  # RFC value does not fit 64 bits
            if int(o) != pair_spec(G, D):
                return f"pair priority({G},{D}) = {o}, RFC 8445 formula gives {pair_spec(G, D)}"
        elif w[0] == "k" and w[1] == "ice_priority_full":
            tp, lp, c = int(w[2]), int(w[3]), int(w[4])
            if tp <= 126 and int(o) != ice_spec(tp, lp, c):
                return f"candidate priority({tp},{lp},{c}) = {o}, formula gives {ice_spec(tp, lp, c)}"
        elif w[0] == "prio" and w[1] == "ice":
            ty, tr, comp, tu, tpref, ip, rel, nat = map(int, w[2:])
            pr = int(o)
            tpv, lpv, cv = pr >> 24, (pr >> 8) & 0xffff, 256 - (pr & 0xff)
            if cv != comp and not (comp == 256 and (pr & 0xff) == 0):
                return f"component term wrong in {line}: {o}"
            if tpv > 126:
                return f"type preference {tpv} > 126 in {line}"
        elif w[0] == "plist":
            prios = [int(x.split(":")[2]) for x in o.split()[1:]]
            if any(prios[i] < prios[i + 1] for i in range(len(prios) - 1)):
                return f"check list not in descending priority order after `{line}`: {prios}"
    # ranking host > prflx > srflx > relay for same transport/reliability (same other fields)
    seen = {}
    for line, o in zip(session, out):
        w = line.split()
        if w[0] == "prio" and w[1] == "ice":
            key = tuple(w[3:5] + w[6:9])  # transport, component, turnPref, ip, reliable  (nat=0 only)
            if w[9] == "0":
                seen.setdefault(key, {})[(int(w[2]), w[5])] = int(o)
    for key, d in seen.items():
        order = [0, 2, 1, 3]  # host, prflx, srflx, relayed
        for a, b in zip(order, order[1:]):
            for (ta, ua), pa in d.items():
                for (tb, ub), pb in d.items():
                    if ta == a and tb == b and not pa > pb:
                        return f"type ranking violated for transport/comp/turnpref/ip/reliable={key}: type {a} prio {pa} <= type {b} prio {pb}"
    return None


def sim_scenario(args):
    """a C01-style session of two real agents; after every step the real stream->conncheck_list of both
    agents is inspected: descending order, and every priority is the RFC value for the agent's current role"""
    exe, seed = args
    import random
    from checks import simcommon as sc
    from lib import simlib
    rng = random.Random(f"C15sim/{seed}")
    cfg = sc.base_config(rng)
    cfg["ctrlB"] = cfg["ctrlA"] if rng.random() < 0.7 else cfg["ctrlB"]   # mostly conflicting roles: forces a switch
    cfg["anyorder"] = False
    if rng.random() < 0.4:
        cfg["nat"] = rng.choice(["A", "B"])      # peer-reflexive local candidates and discovered pairs
    tcp = rng.random() < 0.25
    if tcp:
        # ICE-TCP only (real loopback TCP): the active side connects from an ephemeral port, so TCP peer-reflexive
        # candidates appear on both sides; half of these sessions use reliable agents (the halving rule flips)
        cfg.pop("nat", None)
        cfg.update(newargs=" icetcp=1 iceudp=0", loss=0, dup=0, lat=rng.choice([1, 5]), extra_opts=rng.choice([0, 2]))
    reliable = bool(cfg.get("extra_opts", 0) & 2)
    # a fifth of the UDP sessions: a TURN server is added AFTER the remote candidates are known (late nice_agent_set_relay_info),
    # so the relayed candidate is paired with existing remote candidates the moment it is created
    late_relay = (not tcp) and rng.random() < 0.2
    s = None
    bad = []
    nlists = 0
    switches = 0
    try:
        s = sc.start_session(exe, seed, cfg)
        s.op("net trace 0")
        steps = sc.signalling_steps(rng, cfg)
        last_role = {}
        if late_relay:
            s.op("server 127.0.0.60:3478 turn aa user pass")
        tail = ["run 40", "run 100", "run 400", "run 1000", "runidle 20000"]
        if late_relay:
            who = rng.choice("AB")
            tail = ["run 40"] + [f"relay {who} 1 {c} 127.0.0.60:3478 user pass 0" for c in range(1, cfg["ncomp"] + 1)] + \
                   ["run 30", "run 100", "run 400", "run 1000", "runidle 20000"]
        for st in steps + tail:
            s.op(st)
            if tcp:
                s.op("settle 40")
            if rng.random() < 0.5:
                s.op(f"run {rng.choice([0, 1, 20, 100])}")
            for ag in "AB":
                ev, status = s.op(f"checklist {ag} 1")
                w = status.split()
                role = int(w[1].split("=")[1])
                if ag in last_role and last_role[ag] != role:
                    switches += 1
                last_role[ag] = role
                prios = []
                for ent in w[2:]:
                    f = ent.split(":")
                    prio, lp, rp = int(f[0]), int(f[-2]), int(f[-1])
                    prios.append(prio)
                    G, D = (lp, rp) if role else (rp, lp)
                    if prio != pair_spec(G, D) and (G, D) != (2 ** 32 - 1, 2 ** 32 - 1):
                        bad.append(f"agent {ag} (role {role}) pair priority {prio} != RFC value {pair_spec(G, D)} for local {lp} remote {rp}")
                if any(prios[i] < prios[i + 1] for i in range(len(prios) - 1)):
                    bad.append(f"agent {ag} check list not in descending order: {prios}")
                nlists += 1 if prios else 0
            if bad:
                break
        # every candidate either agent announced: the type-preference byte is the RFC rank of its type for its transport
        # (host 120 > peer-reflexive 110 > server-reflexive 100; halved for TCP on unreliable and for UDP on reliable agents)
        import re
        ncand = 0
        for e in s.events():
            m = re.match(r"t=\d+ (\w+) (new-candidate|new-remote-candidate) \d+ type=(\d) tr=(\d) comp=\d+ prio=(\d+) addr=(\S+)", e)
            if not m or TYPE_PREF.get(int(m.group(3))) is None:
                continue
            ty, tr, prio = int(m.group(3)), int(m.group(4)), int(m.group(5))
            exp = TYPE_PREF[ty] // 2 if (reliable and tr == 0) or (not reliable and tr != 0) else TYPE_PREF[ty]
            ncand += 1
            if prio >> 24 != exp:
                bad.append(f"agent {m.group(1)} {m.group(2)} {m.group(6)}: type {ty} transport {tr} ({'reliable' if reliable else 'unreliable'} agent) "
                           f"has type preference {prio >> 24}, the rank of its type is {exp} (priority {prio})")
                break
        return dict(seed=seed, bad=bad[:3], script=s.script, nlists=nlists, switches=switches, cfg=cfg, ncand=ncand, tcp=tcp)
    except simlib.SimDied as e:
        return dict(seed=seed, bad=["crash: " + str(e)[-800:]], script=s.script if s else [], nlists=nlists, switches=switches, cfg=cfg)
    finally:
        if s:
            s.close()


def run(tier, seed):
    chk = vlib.Check("C15", tier, seed)
    chk.cov["trusted_base"] = TRUSTED
    chk.assumptions = ["type preference <= 126, local preference <= 65535, component 1..256 for the candidate formula "
                       "(C15_type_pref_le / C15_local_pref_le show libnice's own values satisfy this)",
                       "pair (2^32-1, 2^32-1) excluded: value exceeds 64 bits"]
    st = vlib.std_pipeline(chk, MODULE, THEOREMS)
    diverged, ofail = [], []
    if st["libs"]:
        ok, exe, log = vlib.build_harness("kern_drv", multidef=True)
        if not ok:
            chk.note("harness build failed: " + log[-1500:])
            st["libs"] = False; st["log"] = log
        else:
            corpus = load_corpus()
            S = corpus + sessions_for(tier, chk.rng)
            outs, errs = vlib.run_impl(exe, S)
            nontriv = set()
            kinds = {}
            for i, (s, o) in enumerate(zip(S, outs)):
                if o is None:
                    ofail.append({"session": s[:50], "why": "implementation crashed / aborted",
                                  "stderr": errs.get(i, ("", 0, ""))[2][-1500:]})
                    continue
                why = oracle(s, o)
                if why:
                    ofail.append({"session": s if len(s) < 60 else [l for l in s if l.split()[2:4] == why.split("(")[1].split(")")[0].split(",")[:2]][:5] or s[:20],
                                  "why": why})
                for l, x in zip(s, o):
                    w = l.split()
                    kinds[w[0] + " " + w[1]] = kinds.get(w[0] + " " + w[1], 0) + 1
                    if x not in ("0", "assert", "bad-op"):
                        nontriv.add(l)
            if os.path.exists(vlib.model_exe()):
                diverged, total = vlib.diff_sessions(exe, S)
            nops = sum(len(s) for s in S)
            chk.cov["evaluations"] = nops
            chk.cov["traces_validated_against_impl"] = len(S) - len(diverged)
            chk.cov["distinct_nontrivial"] = len(nontriv)
            chk.cov["rule"] = ("ops = kernel evaluations on boundary-exhaustive (2^k, 2^k±1) and random 32-bit pairs, candidate tuples "
                               "(type x transport x component x relay kind x turn preference x address index x reliable x nat-assisted) "
                               "through the real nice_candidate_ice_priority, and check-list add/role-switch histories; non-trivial = "
                               "distinct op lines with a non-zero, non-error result")
            chk.cov["samples"] = [S[len(corpus)][:3], S[-1][:6]]
            chk.cov["generator_distribution"] = {"op_kinds": kinds, "corpus_sessions": len(corpus)}
            # in-agent check-list order (real recalculate_pair_priorities at role switches)
            from checks import simcommon as sc
            from lib import simlib
            oks, sexe, slog = sc.build_sim()
            if oks:
                nsim = 200 if tier == "quick" else 3000
                sres = simlib.run_parallel(sim_scenario, [(sexe, seed * 100000 + i) for i in range(nsim)])
                for r in sres:
                    for b in r["bad"]:
                        ofail.append({"why": "in-agent check list: " + b, "session": r["script"], "config": r["cfg"]})
                chk.cov["generator_distribution"]["sim_sessions"] = len(sres)
                chk.cov["generator_distribution"]["sim_checklists_inspected"] = sum(r["nlists"] for r in sres)
                chk.cov["generator_distribution"]["sim_role_switches_observed"] = sum(r["switches"] for r in sres)
                chk.cov["evaluations"] += sum(r["nlists"] for r in sres)
            else:
                chk.note("sim harness build failed: " + slog[-800:])
    return conclude(chk, st, diverged, ofail, "kern_drv:k/prio/plist")


def load_corpus():
    d = os.path.join(vlib.ROOT, "corpus", "C15")
    out = []
    if os.path.isdir(d):
        for f in sorted(os.listdir(d)):
            out.append([l.strip() for l in open(os.path.join(d, f)) if l.strip() and not l.startswith("#")])
    return out


def replay(path):
    r = json.load(open(path))
    s = r.get("session")
    if not s:
        print(json.dumps(r, indent=1)); return 0
    vlib.ensure_libs(); vlib.extract(); vlib.lake_build(["nicemodel"])
    ok, exe, log = vlib.build_harness("kern_drv", multidef=True)
    io, _, err = vlib.run_lines(exe, ["reset"] + s)
    mo, _, _ = vlib.run_lines(vlib.model_exe(), ["reset"] + s)
    for l, a, b in zip(["reset"] + s, io, mo):
        print(f"{l:50s} impl: {a}   model: {b}")
    why = oracle(s, io[1:])
    print("oracle:", why)
    return 1 if why else 0
