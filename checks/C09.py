"""C09 — Pseudo-TCP always makes progress: completes, or fails with an error, never hangs.

Generators, harness plumbing and oracles are shared with checks/C10.py (pseudo-TCP machinery)."""
import json, os, time
from lib import vlib
from checks.common import conclude
from checks import C10 as P

MODULE = "Nice.Props.C09"
THEOREMS = [f"Nice.Props.C09.{t}" for t in (
    "C09_rto_bounded", "C09_rto_bounded_init", "C09_backoff_doubles_to_ceiling", "C09_transmit_gives_up", "setStateClosed_reports", "C09_next_clock_finite", "C09_next_clock_le_4000")] + [
    f"Nice.Props.C09Window.{t}" for t in ("C09_scaled_buffer_fits_window_field", "C09_empty_buffer_advertises_open_window",
                                          "C09_closed_test_matches_field")] + [
    # the room a writer is offered (its only signal to wait or to go on) is computed by the code's own kernels, regenerated each run
    f"Nice.Props.C10Kernels.{t}" for t in ("C10_available_send_space_is_code", "C10_no_send_space_after_fin",
                                           "C10_buffered_plus_room_is_capacity")]
TRUSTED = P.TRUSTED[:3] + [
    "liveness after healing is a tied simulation claim (healing schedules on the real code under a virtual clock), not a theorem",
]
M32 = 1 << 32


def sessions_for(exe, tier, seed):
    n = 110 if tier == "quick" else 1600      # (2500 schedules peaked at 47 GB of resident memory on the 62 GB sandbox)
    base = seed * 1000003

    def fn(live, rng):
        org = None
        if rng.random() < 0.3:
            # clock origins on both sides of the 32-bit millisecond wrap
            org = (M32 - rng.choice([1, 500, 1000, 3000, 5000, 20000, 61000, 130000, rng.randrange(1, 200000)])) % M32
        params = {}
        r = rng.random()
        if r < 0.25:
            params.update(finack_l=0)
        elif r < 0.5:
            params.update(finack_l=1, finack_r=rng.choice([0, 1]))
        if rng.random() < 0.3:
            params.update(rcvbuf_l=rng.choice([1024, 2000, 70000, 1 << 20]), rcvbuf_r=rng.choice([1024, 4096, 100000, 1 << 20]))
        return P.c09_session(live, rng, origin=org, params=params, random_close=rng.random() < 0.2)
    H = P.gen_parallel(exe, [f"C09/h/{base + i}" for i in range(n)], fn)
    # loss-free networks whose only adversity is a reader stall that closes the receive window for a while
    ns = max(n // 4, 8)

    def fs(live, rng):
        rb = rng.choice([1024, 2048, 4096, 8192, 30000, 61440, 65536, 1 << 17])   # >= 64 KiB: window scaling in use
        return P.c09_stall_session(live, rng, rng.choice([2000, 8000, 14000, 16000, 20000, 25000, 28000, 28000, 36000, 45000]),
                                   params=dict(rcvbuf_r=rb, rcvbuf_l=rng.choice([4096, 61440]), finack_l=1, finack_r=1,
                                               sndbuf_l=rng.choice([4096, 65536, 1 << 20])))
    H = H + P.gen_parallel(exe, [f"C09/s/{base + i}" for i in range(ns)], fs)
    # loss-free networks with every combination of FIN-ACK support on the two sides and (almost) no stall: the two ends must
    # agree on what was negotiated, so the graceful close completes in a few timer periods (oracle_c09, `lossfree`)
    def fm(live, rng):
        fl, fr = rng.choice([(1, 0), (0, 1), (1, 0), (0, 1), (1, 1), (0, 0)])
        S = P.c09_stall_session(live, rng, rng.choice([0, 50, 300, 2000]),
                                params=dict(rcvbuf_r=rng.choice([1024, 4096, 30000, 61440, 65535, 65536, 65537, 100000, 131072, 1 << 19, 1 << 20]),
                                            rcvbuf_l=rng.choice([4096, 61440, 65536, 1 << 20]),
                                            finack_l=fl, finack_r=fr, sndbuf_l=rng.choice([4096, 65536])))
        if getattr(S, "c09", None):
            S.c09["lossfree"] = (fl, fr)
        return S
    H = H + P.gen_parallel(exe, [f"C09/m/{base + i}" for i in range(max(n // 6, 8))], fm)
    # graceful close with queued data on sockets without FIN-ACK support
    H = H + P.gen_parallel(exe, [f"C09/c/{base + i}" for i in range(max(ns // 2, 8))],
                           lambda live, rng: P.c09_noack_close_session(live, rng))
    # networks that never heal: only the finite-deadline conjunct applies
    N = P.gen_parallel(exe, [f"C09/n/{base + i}" for i in range(max(n // 6, 4))],
                       lambda live, rng: P.c09_session(live, rng, heal_at=rng.choice([30000, 120000]), never_heal=True))
    return H, N


def run(tier, seed):
    chk = vlib.Check("C09", tier, seed)
    chk.cov["trusted_base"] = TRUSTED
    chk.assumptions = [
        "completion bound after healing = MAX_RTO x (data / smallest MSS + 8) + 15 s (see checks/C10.py c09_bound): the code "
        "recovers one lost segment per retransmission-timer expiry once its whole queue has been transmitted",
        "an error closure (Closed callback with ETIMEDOUT / ECONNABORTED / ECONNRESET / EMSGSIZE) is an accepted outcome; "
        "without error all bytes accepted by send() must have been read",
        "without FIN-ACK support shutdown() discards later input by design, so such sockets are closed by the driver only "
        "after they have read everything; applications that close their read side early are only required to terminate",
        "deadlines are interpreted modulo 2^32 ms (the clock is a 32-bit millisecond counter)"]
    st = vlib.std_pipeline(chk, MODULE, THEOREMS)
    diverged, ofail = [], []
    if st["libs"]:
        ok, exe, log = vlib.build_harness("ptcp_drv", multidef=True)
        if not ok:
            chk.note("harness build failed: " + log[-1500:])
            st["libs"] = False
            st["log"] = log
        else:
            t0 = time.time()
            corpus = P.run_corpus_scripts(exe, P.load_corpus("C09"), seed)
            H, N = sessions_for(exe, tier, seed)
            allS = [s for _, s in corpus] + H + N
            chk.note(f"{len(H)} healing schedules + {len(N)} never-healing ({sum(len(S.ops) for S in allS)} operations) "
                     f"generated on the real code in {time.time() - t0:.1f}s")
            for S in allS:
                c = P.crashed(S)
                why = None if c else (P.oracle_c09(S) or P.oracle_next(S))
                if c or why:
                    rec = c or {"session": S.ops if len(S.ops) < 4000 else S.ops[:4000], "why": why,
                                "c09": getattr(S, "c09", None)}
                    k = P.known_match("C09", rec["why"] + " " + rec.get("stderr", ""))
                    if k:
                        chk.known(k.get("text", k.get("id", "")))
                    else:
                        ofail.append(rec)
            sessions = [S.ops for S in allS if not S.live.dead]
            if st["proof"] or os.path.exists(vlib.model_exe()):
                diverged, total = P.retrying(lambda: vlib.diff_sessions(exe, sessions))
            healed = [S for S in H if getattr(S, "c09", {}).get("healed")]
            chk.cov["evaluations"] = sum(len(S.ops) for S in allS)
            chk.cov["traces_validated_against_impl"] = len(sessions) - len(diverged)
            chk.cov["distinct_nontrivial"] = len({tuple(S.ops[:400]) for S in healed
                                                  if S.c09["end"] == "done" and sum(S.c09["read"].values()) > 0})
            chk.cov["rule"] = ("sessions = lossy / stalling two-socket schedule on the real code up to a healing time in "
                               "0..120 s (virtual), then a loss-free suffix with readers reading, clocks notified at their "
                               "deadlines and graceful shutdown; non-trivial = distinct healed schedules that completed with "
                               "data transferred; every get_next_clock answer of every schedule is checked for finiteness")
            chk.cov["samples"] = [H[0].ops[:8] if H else []]
            gd = P.histogram(allS)
            ends, el = {}, []
            for S in healed:
                c = S.c09
                key = c["end"] + ("+error" if (c["errcb"]["l"] or c["errcb"]["r"]) else "")
                ends[key] = ends.get(key, 0) + 1
                el.append((c["elapsed"], c["heal_at"], round(c["elapsed"] / P.c09_bound(c), 4)))
            el.sort()
            gd["outcomes_after_healing"] = ends
            gd["inconclusive_runs_driver_budget"] = sum(1 for S in healed if S.c09["end"] in ("op-cap", "step-cap"))
            gd["heal_at_ms"] = sorted({S.c09["heal_at"] for S in healed})[:40]
            if el:
                gd["completion_ms_after_healing_quantiles"] = {q: el[min(int(len(el) * q), len(el) - 1)][0] for q in (0.5, 0.9, 0.99, 1.0)}
                gd["max_fraction_of_bound_used"] = max(x[2] for x in el)
            gd["get_next_clock_answers_checked"] = sum(1 for S in allS for e in S.events if e[1] == "next")
            gd["clock_origins_near_wrap"] = sum(1 for S in allS if S.ops and int(S.ops[0].split()[2]) > M32 - 300000)
            gd["corpus"] = [n for n, _ in corpus]
            chk.cov["generator_distribution"] = gd
    return conclude(chk, st, diverged, ofail, "ptcp_drv:healing")


def replay(path):
    r = json.load(open(path))
    s = r.get("session")
    if not s:
        print(json.dumps(r, indent=1)[:4000]); return 0
    vlib.ensure_libs(); vlib.extract(); vlib.lake_build(["nicemodel"])
    ok, exe, log = vlib.build_harness("ptcp_drv", multidef=True)
    io, rc, err = vlib.run_lines(exe, ["reset"] + s)
    mo, _, _ = vlib.run_lines(vlib.model_exe(), ["reset"] + s)
    ndiff = 0
    for k, l in enumerate(["reset"] + s):
        a = io[k] if k < len(io) else "<no output: crashed>"
        b = mo[k] if k < len(mo) else "<no output>"
        if a != b or k > len(s) - 12:
            print(f"{l[:100]}\n   impl : {a[:300]}\n   model: {b[:300]}{'' if a == b else '   <-- DIFFERENT'}")
    if len(io) < len(s) + 1:
        print("implementation died:", err[-2000:])
        return 1
    S = P.Replayed(s, io[1:])
    why = P.oracle_next(S)
    # the recorded session is a finished run: it must end closed or with an error callback
    last = {}
    for line, o in zip(s, io[1:]):
        w = line.split()
        d = P.parse_reply(o)
        if d and len(w) > 2 and w[2] in ("l", "r"):
            last[w[2]] = d
    for x, d in last.items():
        if d["st"] != "CLOSED" and not S.errcb[x]:
            why = why or f"socket {x} is still {d['st']} at the end of the recorded run and no error was reported"
    print("oracle:", why)
    print("recorded verdict:", r.get("why"))
    return 1 if (why or r.get("why")) else 0
