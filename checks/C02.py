"""C02 — Application data arrives intact, whole and in order on every transport."""
import json, os, re, struct
from lib import vlib, simlib, stunpy
from checks.common import conclude
from checks import simcommon as sc

MODULE = "Nice.Props.C02"
THEOREMS = [f"Nice.Props.C02.{t}" for t in (
    "C02_compact_exact", "C02_scatter_exact", "C02_scatter_compact_roundtrip", "gather_eq", "C02_frames_concat", "C02_demux")] + [
    "Nice.Props.C03Flow.C03_inbound_consumes_control_traffic", "Nice.Props.C03Recv.demux_same_padding",
    "Nice.Props.C02Iter.C02_partly_filled_message_counts", "Nice.Props.C02Iter.C02_untouched_message_not_counted",
    "Nice.Props.C02Iter.C02_full_means_all_counted"]
TRUSTED = [
    "Lean 4 kernel; axioms propext, Classical.choice, Quot.sound only (audited every run)",
    "Nice/Gen/Kernels.lean iter_n_valid_messages / iter_is_at_end: REGENERATED on every run from the bodies of "
    "nice_input_message_iter_get_n_valid_messages / _is_at_end in agent/agent.c (tools/extract.py FIELD_KERNELS: `iter->field` read as a "
    "parameter; the translator refuses a body that writes through the pointer or uses it otherwise); the C02Iter theorems are about those definitions",
    "Nice/Model/Copy.lean: hand-written models of compact_message / memcpy_buffer_to_input_message and of the >0xF800 ICE-TCP "
    "frame split; tied (a) line by line to the real helpers through kern_drv `copy` ops on exactly-sized heap blocks, (b) by "
    "comparing the pieces a real peer agent receives over ICE-TCP with the model's splitFrames for the same buffer layout",
    "demultiplexing theorem C02_demux is about the Gate model (see C03); RFC 4571 reassembly is C17, the reliable byte stream is C08",
    "end-to-end delivery is explored by simulating two real agents per transport (UDP host pairs with loss/duplication, ICE-TCP "
    "over real loopback TCP, pseudo-TCP reliable mode over the virtual UDP network); the kernel's TCP/UDP behaviour is assumed",
]
FRAME = 0xF800


def rand_payload(rng, n, kind):
    if kind == "stunlike":
        # a 20-byte-header lookalike whose length field matches, without fingerprint
        body = bytes(rng.randrange(256) for _ in range(min(65532, max(0, (n - 20) // 4 * 4))))
        return struct.pack("!HHI", rng.choice([0x0001, 0x0011, 0x0101]), len(body), stunpy.MAGIC) + bytes(rng.randrange(256) for _ in range(12)) + body
    if kind == "stun-nofp":
        return stunpy.build(1, 1, bytes(rng.randrange(256) for _ in range(12)), [(stunpy.A_PRIORITY, struct.pack("!I", 7))])
    if kind == "rtp":
        return bytes([0x80, 96]) + bytes(rng.randrange(256) for _ in range(max(0, n - 2)))
    return bytes(rng.randrange(256) for _ in range(n))


def split_buffers(rng, data):
    k = rng.randint(1, 8)
    cuts = sorted(rng.randrange(0, len(data) + 1) for _ in range(k - 1))
    parts, prev = [], 0
    for c in cuts + [len(data)]:
        parts.append(data[prev:c]); prev = c
    return parts


def hexs(parts):
    return ",".join(p.hex() if p else "-" for p in parts)


def bytestream_scenario(args):
    """reliable agents over ICE-TCP in bytestream mode (`bytestream-tcp`): the receiver has no I/O callback and reads with
    nice_agent_recv_messages_nonblocking into ONE message scattered over exactly-sized buffers of random sizes, while several
    frames are already pending.  The bytes gathered from the buffers, in order, must be exactly the stream that was sent."""
    exe, seed, tier = args
    import random
    rng = random.Random(f"C02bs/{seed}")
    s = simlib.Sim(exe)
    bad = []
    sent = b""
    got = b""
    try:
        s.op(f"net seed {seed}"); s.op("net trace 0"); s.op("net latency 1 1")
        # half of the sessions: the same pull-mode receiver on reliable agents over UDP (pseudo-TCP), where the amount of data
        # available often ends exactly at a boundary between two buffers of the message
        ptcp = rng.random() < 0.5
        extra = "" if ptcp else " icetcp=1 iceudp=0 bytestream=1"
        s.op("new A ctrl=1 compat=0 opts=2" + extra)
        s.op("new B ctrl=0 compat=0 opts=2" + extra)
        for ag in "AB":
            s.op(f"stream {ag} 1"); s.op(f"attach {ag} 1"); s.op(f"gather {ag} 1")
        s.op("run 100")
        for st in ("creds A 1 B 1", "creds B 1 A 1", "cands A 1 1 B 1", "cands B 1 1 A 1"):
            s.op(st)
        s.op("settle 300"); s.op("runidle 20000"); s.op("settle 300"); s.op("run 500")
        if simlib.parse_q(s.op("q A 1 1")[1])["state"] != "READY" or simlib.parse_q(s.op("q B 1 1")[1])["state"] != "READY":
            return dict(seed=seed, transport="bytestream", bad=[], script=s.script, nmsg=0, model_lines=[], ready=False)
        s.op("detach B 1 1")
        for rnd in range(rng.randint(3, 7)):
            first_layout = None
            if ptcp and rng.random() < 0.7:
                # exactly as many bytes as the first k buffers of the next receive vector hold (k < number of buffers)
                lay = [rng.choice([1, 2, 3, 10, 11, 20, 64, 100, 1000]) for _ in range(rng.randint(2, 4))]
                first_layout = ",".join(map(str, lay))
                frames = [bytes(rng.randrange(256) for _ in range(sum(lay[:rng.randint(1, len(lay) - 1)])))]
            else:
                frames = [bytes(rng.randrange(256) for _ in range(rng.choice([1, 2, 9, 10, 12, 30, 100, 700])))
                          for _ in range(rng.randint(1, 4))]
            for f in frames:
                st = s.op(f"send A 1 1 {f.hex()}")[1]
                m = re.match(r"ok ret (\d+)$", st.strip())
                if m and int(m.group(1)) >= 1:      # (the call returns the number of whole messages accepted)
                    sent += f
            s.op("settle 150"); s.op("run 20")
            for i in range(8):
                layout = ",".join(str(rng.choice([1, 2, 3, 10, 11, 20, 64, 1000])) for _ in range(rng.randint(1, 4)))
                if i == 0 and first_layout:
                    layout = first_layout
                st = s.op(f"recvnb B 1 1 {layout}")[1]
                m = re.match(r"ok ret (-?\d+)(?: err \S+)? len (\d+) data (\S+)", st)
                if not m or int(m.group(1)) <= 0:
                    break
                got += bytes.fromhex(m.group(3).replace("-", ""))
        s.op("settle 200"); s.op("run 50")
        for _ in range(40):
            st = s.op("recvnb B 1 1 4096")[1]
            m = re.match(r"ok ret (-?\d+)(?: err \S+)? len (\d+) data (\S+)", st)
            if not m or int(m.group(1)) <= 0:
                break
            got += bytes.fromhex(m.group(3).replace("-", ""))
        if got != sent:
            k = next((i for i in range(min(len(got), len(sent))) if got[i] != sent[i]), min(len(got), len(sent)))
            bad.append(("bytestream" if not ptcp else "pull-reliable", f"bytes gathered from the scatter buffers differ from the stream sent: {len(got)} received, {len(sent)} sent, "
                                      f"first difference at offset {k} (got {got[k:k + 6].hex() or '<end>'}, sent {sent[k:k + 6].hex() or '<end>'})"))
        return dict(seed=seed, transport="bytestream", bad=bad, script=s.script, nmsg=len(sent), model_lines=[], ready=True)
    except simlib.SimDied as e:
        return dict(seed=seed, transport="bytestream", bad=[("crash", str(e)[-1200:])], script=s.script, nmsg=0, model_lines=[], ready=False)
    finally:
        s.close()


def scenario(args):
    exe, seed, tier = args
    import random
    rng = random.Random(f"C02/{seed}")
    transport = rng.choice(["udp", "udp", "tcp", "tcp", "reliable"])
    cfg = sc.base_config(rng)
    cfg.update(naA=1, naB=1, ncomp=1, anyorder=False, regA=0, regB=0, ctrlA=1, ctrlB=0, dup=0, lat=rng.choice([1, 5]))
    cfg["loss"] = 0
    s = simlib.Sim(exe)
    bad = []
    sent_msgs, frames_expected = [], []
    try:
        s.op(f"net seed {seed}")
        s.op("net trace 0")
        s.op(f"net latency 1 {cfg['lat']}")
        # half of the UDP sessions negotiate over a slow, duplicating path: checks are retransmitted and answered more than
        # once, so duplicate / late STUN responses (no pending transaction any more) arrive before and after READY — none of
        # that control traffic may show up at the application
        noisy_ctl = transport == "udp" and rng.random() < 0.5
        if noisy_ctl:
            s.op(f"net latency {rng.choice([1, 150])} {rng.choice([260, 420])}")
            s.op(f"net dup {rng.choice([30, 60])}")
        extra = {"udp": "", "tcp": " icetcp=1 iceudp=0", "reliable": ""}[transport]
        opts = 2 if transport == "reliable" else 0
        s.op(f"new A ctrl=1 compat=0 opts={opts}{extra}")
        s.op(f"new B ctrl=0 compat=0 opts={opts}{extra}")
        for ag in "AB":
            s.op(f"stream {ag} 1"); s.op(f"attach {ag} 1"); s.op(f"gather {ag} 1")
        s.op("run 100")
        for st in ("creds A 1 B 1", "creds B 1 A 1", "cands A 1 1 B 1", "cands B 1 1 A 1"):
            s.op(st)
        s.op("runidle 30000")
        q = simlib.parse_q(s.op("q A 1 1")[1])
        if q["state"] != "READY":
            return dict(seed=seed, transport=transport, bad=[("setup", f"not READY: {q['state']}")], script=s.script, nmsg=0, model_lines=[])
        if noisy_ctl:
            s.op("net dup 0")
            s.op(f"net latency 1 {cfg['lat']}")
        if transport == "udp":
            lossy = rng.random() < 0.4
            if lossy:
                s.op("net loss 25 100")
                s.op(f"net dup 0")
        nmsg = rng.randint(3, 10)
        model_lines = []
        # ICE-TCP under back-pressure: tiny kernel buffers, large messages, the sender retries on WOULD_BLOCK
        pressure = transport == "tcp" and rng.random() < 0.4
        if pressure:
            s.op(f"tcpbuf {rng.choice([8192, 16384, 32768])}")
            nmsg = rng.randint(6, 12)
        burst = pressure and rng.random() < 0.5
        if burst:
            # many small frames sent back to back while the receiver's loop does not run: its reads (bounded by the tiny
            # kernel buffer) end at arbitrary offsets inside frames and inside the 2-byte length headers
            for _ in range(rng.randint(2, 4)):
                cnt, sz, sd = rng.choice([60, 160, 300]), rng.choice([1, 13, 500, 1022, 1023, 1400, 4000]), rng.randrange(1000)
                ev, st = s.op(f"sendburst A 1 1 {cnt} {sz} {sd}")
                k = int(st.split()[2])
                for i in range(k):
                    sent_msgs.append(bytes((sd * 31 + i * 7 + j * 13) & 0xff for j in range(sz)))
                for _ in range(3):
                    s.op("settle 400")
                    s.op("run 50")
            nmsg = 0
        for i in range(nmsg):
            kind = rng.choice(["random", "random", "stunlike", "stun-nofp", "rtp"])
            if pressure:
                n = rng.choice([70000, 0xF800 + 1, 2 * 0xF800 + 5, 30000, 65535, rng.randrange(20000, 130000)])
            elif transport == "tcp":
                n = rng.choice([1, 2, 100, 1400, 0xF7FF, 0xF800, 0xF801, 65535, rng.randrange(1, 65536), 2 * 0xF800 + 5, 3 * 0xF800])
            elif transport == "reliable":
                n = rng.choice([1, 100, 1400, 5000, rng.randrange(1, 20000)])
            else:
                n = rng.choice([1, 2, 20, 100, 1400, 9000, 65000, rng.randrange(1, 65508)])
            data = rand_payload(rng, n, kind)
            parts = split_buffers(rng, data)
            ev, st = s.op(f"send A 1 1 {hexs(parts)}")
            tries = 0
            while pressure and "ret -1" in st and "-27" in st and tries < 400:     # G_IO_ERROR_WOULD_BLOCK: nothing was taken
                s.op("settle 200")
                s.op("run 20")
                ev, st = s.op(f"send A 1 1 {hexs(parts)}")
                tries += 1
            if "ret 1" in st:
                sent_msgs.append(data)
                if transport == "tcp":
                    model_lines.append("copy split " + hexs(parts))
            elif "err" in st and transport != "reliable":
                bad.append(("send-failed", f"send of {n} bytes returned {st}"))
            s.op(f"run {rng.choice([5, 50, 400])}")
        if transport == "reliable" and rng.random() < 0.6:
            # several messages in ONE nice_agent_send_messages_nonblocking call, large enough to exhaust the pseudo-TCP send
            # buffer inside the call: the messages reported as accepted (and only those) must appear in the stream, whole
            for _ in range(rng.randint(2, 5)):
                spec = [(rng.choice([50000, 50000, 30000, 46000, 1000, 89000]), rng.randrange(200)) for _ in range(rng.randint(2, 4))]
                st = s.op("sendm A 1 1 " + "/".join(f"{n}:{sd}" for n, sd in spec))[1]
                mret = re.match(r"ok ret (-?\d+)", st)
                k = int(mret.group(1)) if mret else -1
                for n, sd in spec[:max(k, 0)]:
                    sent_msgs.append(bytes((sd * 31 + j * 13) & 0xff for j in range(n)))
                s.op(f"run {rng.choice([50, 2000, 6000])}")
            s.op("run 8000")
        if pressure:
            for _ in range(6):          # kernel TCP with tiny buffers needs real time to drain
                s.op("settle 3000")
                s.op("run 200")
        s.op("run 3000")
        got = [bytes.fromhex(m.group(1)) if m.group(1) != "-" else b"" for e in s.events()
               for m in [re.match(r"t=\d+ B recv 1 1 (\S+)", e)] if m]
        for e in s.events():
            m = re.match(r"t=\d+ A recv 1 1 (\S+)", e)
            if m:
                bad.append(("control-traffic-delivered", f"agent A's application received {m.group(1)[:48]}… although B's application sent nothing"))
                break
        if transport == "udp":
            # each received datagram is exactly one sent message, in order (no loss configured => all arrive), none altered/merged/split/duplicated
            it = iter(sent_msgs)
            idx = 0
            for g in got:
                found = False
                while idx < len(sent_msgs):
                    if sent_msgs[idx] == g:
                        found = True; idx += 1; break
                    idx += 1
                if not found:
                    bad.append(("udp-altered", f"received a {len(g)}-byte datagram that is not one of the sent messages (or out of order / duplicated)"))
                    break
            if "net loss" not in " ".join(s.script) and len(got) != len(sent_msgs):
                bad.append(("udp-lost", f"{len(sent_msgs)} messages sent on a loss-free path, {len(got)} received"))
        elif transport == "tcp":
            if b"".join(got) != b"".join(sent_msgs):
                bad.append(("tcp-stream", f"concatenation of received pieces ({len(b''.join(got))} bytes) differs from the messages sent ({len(b''.join(sent_msgs))} bytes)"))
            if any(len(g) > FRAME for g in got):
                bad.append(("tcp-frame-too-large", f"a received piece has {max(len(g) for g in got)} bytes"))
            # boundaries: every message arrives as ceil(n/F800) consecutive pieces
            exp = []
            for m in sent_msgs:
                for k in range(0, len(m), FRAME):
                    exp.append(m[k:k + FRAME])
            if [len(x) for x in got] != [len(x) for x in exp]:
                bad.append(("tcp-boundaries", f"piece lengths {[len(x) for x in got][:12]} expected {[len(x) for x in exp][:12]}"))
            frames_expected = exp
        else:
            if b"".join(got) != b"".join(sent_msgs):
                a, b = b"".join(got), b"".join(sent_msgs)
                k = next((i for i in range(min(len(a), len(b))) if a[i] != b[i]), min(len(a), len(b)))
                bad.append(("reliable-stream", f"received byte stream ({len(a)} bytes) differs from sent ({len(b)} bytes) at offset {k}"))
        return dict(seed=seed, transport=transport, bad=bad, script=s.script, nmsg=len(sent_msgs), model_lines=model_lines,
                    pressure=pressure, retries=sum(1 for x in s.script if x.startswith("settle 200")),
                    frames=[f.hex() for f in frames_expected] if len(frames_expected) < 6 else None,
                    got_frames=[g.hex() for g in got])
    except simlib.SimDied as e:
        return dict(seed=seed, transport=transport, bad=[("crash", str(e)[-1500:])], script=s.script, nmsg=0, model_lines=[])
    finally:
        s.close()


def copy_sessions(rng, n):
    S = []
    for _ in range(n):
        L = []
        for _ in range(20):
            data = bytes(rng.randrange(256) for _ in range(rng.choice([0, 1, 2, 7, 64, 300])))
            parts = split_buffers(rng, data)
            want = rng.choice([len(data), len(data), max(0, len(data) - 1), len(data) // 2])
            L.append(f"copy compact {hexs(parts)} {want}")
            sizes = [rng.choice([0, 1, 2, 5, 64, 400]) for _ in range(rng.randint(1, 6))]
            L.append(f"copy scatter {','.join(map(str, sizes))} {data.hex() if data else '-'}")
        S.append(L)
    return S


def run(tier, seed):
    chk = vlib.Check("C02", tier, seed)
    chk.cov["trusted_base"] = TRUSTED
    st = vlib.std_pipeline(chk, MODULE, THEOREMS)
    diverged, ofail = [], []
    if st["libs"]:
        ok, exe, log = sc.build_sim()
        okk, kexe, klog = vlib.build_harness("kern_drv", multidef=True)
        if not (ok and okk):
            chk.note("harness build failed: " + (log + klog)[-1500:]); st["libs"] = False; st["log"] = log + klog
        else:
            # 1. copy helpers: model vs real functions
            CS = copy_sessions(chk.rng, 60 if tier == "quick" else 1500)
            if os.path.exists(vlib.model_exe()):
                d, _ = vlib.diff_sessions(kexe, CS)
                diverged += d
            outs, errs = vlib.run_impl(kexe, CS)
            for sess, o in zip(CS, outs):
                if o is None:
                    ofail.append({"why": "copy helper crashed (sanitizer?)", "session": sess[:6]})
                    continue
                for line, res in zip(sess, o):
                    w = line.split()
                    if w[1] == "compact":
                        flat = "".join(x for x in w[2].split(",") if x != "-")
                        exp = flat[:2 * int(w[3])] or "-"
                        if res != exp:
                            ofail.append({"why": f"compact returned {res[:60]} expected {exp[:60]}", "session": [line]})
                    else:
                        data = "" if w[3] == "-" else w[3]
                        tot = sum(map(int, w[2].split(",")))
                        n = int(res.split()[1])
                        got = "".join(x for x in (res.split()[3] if len(res.split()) > 3 else "").split(",") if x != "-")
                        if n != min(tot, len(data) // 2) or got != data[:2 * n]:
                            ofail.append({"why": f"scatter wrote {res[:80]} for data {data[:40]} sizes {w[2]}", "session": [line]})
            # 2. end-to-end sessions per transport
            corp = sc.run_corpus(exe, "C02", ofail)
            n = 120 if tier == "quick" else 2500
            res = simlib.run_parallel(scenario, [(exe, seed * 100000 + i, tier) for i in range(n)])
            res += simlib.run_parallel(bytestream_scenario, [(exe, seed * 100000 + i, tier) for i in range(max(n // 6, 12))])
            kinds = {}
            split_lines, split_expected = [], []
            for r in res:
                kinds[r["transport"]] = kinds.get(r["transport"], 0) + 1
                for kind, what in r["bad"]:
                    ofail.append({"why": f"{kind} ({r['transport']}): {what}", "session": [l[:300] for l in r["script"]]})
            # 3. ICE-TCP pieces vs the Lean model's splitFrames (short messages only, to keep lines small)
            srng = chk.rng
            lines, want = [], []
            for _ in range(40 if tier == "quick" else 400):
                total = srng.choice([0xF800 + 3, 2 * 0xF800, 0xF800 - 1, 70000, 5])
                data = bytes([srng.randrange(256)]) * total
                parts = split_buffers(srng, data)
                lines.append("copy split " + hexs(parts))
                want.append([data[k:k + FRAME].hex() for k in range(0, total, FRAME)])
            if os.path.exists(vlib.model_exe()):
                out, rc, err = vlib.run_lines(vlib.model_exe(), lines)
                for l, o, w in zip(lines, out, want):
                    got = [x for x in o.split(" ", 1)[1].split(",")] if " " in o else []
                    if got != w:
                        diverged.append({"index": 0, "op": l[:200], "impl": "chunks of 0xF800 (what a peer receives, see tcp sessions)",
                                         "model": o[:200]})
            chk.cov["evaluations"] = len(res) + sum(len(x) for x in CS)
            chk.cov["distinct_nontrivial"] = sum(1 for r in res if r["nmsg"] > 0 and not r["bad"])
            chk.cov["traces_validated_against_impl"] = len(CS) + len(lines) - len(diverged)
            chk.cov["rule"] = ("copy-helper ops on random scatter layouts (incl. empty buffers) against the real helpers; sessions of two real "
                               "agents per transport (UDP, ICE-TCP, pseudo-TCP reliable) sending 3-10 messages of sizes 1..65535 (TCP: up to "
                               "3*0xF800) split over 1..8 buffers, payloads random / STUN-lookalike / unfingerprinted STUN / RTP; "
                               "non-trivial = sessions that delivered at least one message with every oracle satisfied")
            chk.cov["samples"] = [CS[0][:3], [l[:120] for l in res[0]["script"][-6:]]]
            chk.cov["generator_distribution"] = {"transports": kinds, "messages_sent": sum(r["nmsg"] for r in res),
                                                 "tcp_backpressure_sessions": sum(1 for r in res if r.get("pressure")),
                                                 "tcp_would_block_retries": sum(r.get("retries", 0) for r in res),
                                                 "copy_ops": sum(len(x) for x in CS), "split_model_cases": len(lines)}
    return conclude(chk, st, diverged, ofail, "kern_drv:copy + sim_drv:C02 transports")


def replay(path):
    r = json.load(open(path))
    print(json.dumps(r, indent=1)[:6000])
    return 0
