"""C04 — STUN validation accepts exactly RFC-correct integrity, fingerprint and txid."""
import json, os, struct
from lib import vlib
from checks.common import conclude
from checks import stunlib as S

MODULE = "Nice.Props.C04Finish"   # re-exports Nice.Props.C04 and adds the finish/validate theorem
THEOREMS = [f"Nice.Props.C04.{t}" for t in (
    "C04_success_needs_integrity", "C04_key_provenance", "C04_success_needs_fingerprint",
    "C04_response_needs_outstanding", "C04_response_at_most_once", "crc32_table_correct",
    "validate_stages", "validate_frame", "C04_finish_then_validate_partial", "C04_unmatched_is_response",
    "C04_default_validater_exact_name", "C04_default_validater_unknown_name")]
# C04_finish_then_validate is proved in PARTIAL form (short-term credentials, no fingerprint: the MAC that
# finish writes passes the M-I stage of validate, all four compatibility modes); the composition with the
# other stages, LONG_TERM and FINGERPRINT variants are decided by the tie: the `valm` right after every
# `fin <key>` in the library-built stream, model and implementation, plus finish_validate_oracle
TRUSTED = [
    "Lean 4 kernel; axioms allowed: propext, Classical.choice, Quot.sound (audited by #print axioms on every run)",
    "hand-written model Nice/Model/Stun/Agent.lean of stun/stunagent.c + stunhmac.c (MAC framing, priv_trim_var), "
    "tied by the stun_drv differential stream; HMAC-SHA1 / MD5 are parameters of the theorems (GnuTLS in the library; "
    "the executable model's own SHA-1/MD5/HMAC are compared with GnuTLS on RFC vectors and random inputs on every run)",
    "the validater callback is a parameter; the harness uses the library's stun_agent_default_validater",
]
STREAM = "stun_drv:agent"
OKST = ("0", "7", "8")          # SUCCESS, UNKNOWN_REQUEST_ATTRIBUTE, UNKNOWN_ATTRIBUTE: past all checks
CRED_ERR = (300, 400, 401, 438)


def kx(b):
    return "null" if b is None else S.hx(b)


def table_str(tab):
    if tab is None:
        return "nocb"
    if not tab:
        return "none"
    return ";".join(f"{S.hx(u)}={kx(k)}" for u, k in tab)


def rand_flags(rng):
    base = rng.choice([S.F_SHORT, S.F_SHORT, S.F_LONG, 0, S.F_SHORT | S.F_FPR, S.F_LONG | S.F_FPR, S.F_FPR])
    extra = 0
    for f, p in ((S.F_SW, .1), (S.F_IGN, .08), (S.F_NOIND, .1), (S.F_FORCE, .1), (S.F_NOALIGN, .12), (S.F_CONSENT, .12)):
        if rng.random() < p:
            extra |= f
    return base | extra if rng.random() < 0.85 else rng.randrange(512)


def agent_line(compat, flags, known="all", sw="nosw"):
    return f"stun agent {compat} {flags:x} {known} {sw}"


def rand_cred(rng):
    user = bytes(rng.randrange(33, 127) for _ in range(rng.choice([1, 3, 4, 8, 13])))
    realm = bytes(rng.randrange(33, 127) for _ in range(rng.choice([1, 4, 7, 12])))
    if rng.random() < 0.15:
        realm = b'"' + realm + b'"'
    nonce = S.rand_bytes(rng, rng.choice([1, 8, 16]))
    pw = S.rand_bytes(rng, rng.choice([1, 4, 16, 20, 64, 65, 100]))
    return user, realm, nonce, pw


def extra_attrs(rng, n=None):
    out = []
    for _ in range(rng.choice([0, 1, 2, 3]) if n is None else n):
        t, v = S.rand_attr(rng, 24)
        if t in (S.MI, S.FPR, S.USERNAME, S.REALM, S.NONCE, S.ERROR_CODE):
            continue
        out.append((t, v))
    return out


_CRC_T = []
for _i in range(256):
    _c = _i
    for _ in range(8):
        _c = (_c >> 1) ^ 0xedb88320 if _c & 1 else _c >> 1
    _CRC_T.append(_c)


def crc32_wlm2009(data):
    """CRC-32 with the mistyped table entry of Windows Live Messenger 2009 (0x8bbeb8ea written as 0x8bbe8ea), the
    value an MS-ICE2 peer may send and ONLY an MSICE2 agent may accept"""
    c = 0xffffffff
    for x in data:
        l = _CRC_T[(c ^ x) & 0xff]
        if l == 0x8bbeb8ea:
            l = 0x8bbe8ea
        c = l ^ (c >> 8)
    return c ^ 0xffffffff


def corrupt(rng, m):
    b = bytearray(m)
    if len(b) >= 28 and b[-8:-4] == bytes([0x80, 0x28, 0, 4]) and rng.random() < 0.4:
        # FINGERPRINT recomputed with the legacy (mistyped) CRC table; only messages whose CRC walk hits the bad entry
        # (roughly a quarter) get a different value — the others are corrupted in the ordinary way below
        legacy = crc32_wlm2009(bytes(b[:-8])) ^ 0x5354554e
        if legacy != int.from_bytes(b[-4:], "big"):
            b[-4:] = legacy.to_bytes(4, "big")
            return bytes(b)
    k = rng.randrange(4)
    if k == 0:      # single byte
        i = rng.randrange(len(b)); b[i] ^= rng.randrange(1, 256)
    elif k == 1:    # single bit
        i = rng.randrange(len(b)); b[i] ^= 1 << rng.randrange(8)
    elif k == 2:    # a few bytes
        for _ in range(rng.randrange(2, 6)):
            i = rng.randrange(len(b)); b[i] ^= rng.randrange(1, 256)
    else:           # inside M-I / FINGERPRINT
        i = rng.randrange(max(0, min(20, len(b) - 1), len(b) - 32), len(b)); b[i] ^= rng.randrange(1, 256)
    return bytes(b)


def s_authentic(rng, compat=None, flags=None):
    """python-built authentic message, then corruptions of it, at a fresh agent"""
    compat = rng.randrange(4) if compat is None else compat
    flags = rand_flags(rng) if flags is None else flags
    user, realm, nonce, pw = rand_cred(rng)
    cls = rng.choice([0, 0, 0, 1])
    method = rng.choice([1, 1, 3, 4, 6, 9])
    lt = bool(flags & S.F_LONG)
    txid = S.rand_txid(rng, cookie=True if compat in (1, 2) else rng.random() < 0.5)
    m = S.authentic(rng, compat, flags, cls, method, txid, user, realm if (lt or rng.random() < 0.2) else None,
                    nonce if (lt or rng.random() < 0.2) else None, pw, extra_attrs(rng))
    tab = [(user, pw)]
    if rng.random() < 0.3:
        tab.insert(rng.randrange(2), (S.rand_bytes(rng, 3), S.rand_bytes(rng, 8)))
    if rng.random() < 0.05:
        tab = [(user, rng.choice([None, b""]))]
    if rng.random() < 0.2:
        # names related by prefix: "the key bound to its USERNAME" means the whole name, not a leading part of it
        k = rng.randrange(1, len(user)) if len(user) > 1 else 1
        tab = rng.choice([[(user[:k], pw)] if len(user) > 1 else [(user + b"x", pw)],      # only a proper prefix is registered, with the message's key
                          [(user + b":adm", pw)],                                          # only a longer name is registered
                          [(user[:k], S.rand_bytes(rng, 8)), (user, pw)],                  # a prefix with another key comes first
                          [(user, pw), (user[:k], S.rand_bytes(rng, 8))]])
    lines = [agent_line(compat, flags), f"stun val {S.hx(m)} {table_str(tab)}"]
    for _ in range(rng.choice([2, 4, 8])):
        lines.append(f"stun val {S.hx(corrupt(rng, m))} {table_str(tab)}")
    if rng.random() < 0.3:
        lines.append(f"stun val {S.hx(m)} {table_str([(user, S.rand_bytes(rng, len(pw)))])}")   # wrong key
    if rng.random() < 0.15:
        lines.append(f"stun val {S.hx(m)} {rng.choice(['nocb', 'none'])}")
    return lines


def build_ops(rng, compat, flags, user, realm, nonce, with_user=True):
    """append ops of a library-built message"""
    ops = []
    for t, v in extra_attrs(rng):
        ops.append(f"stun app {t:04x} bytes {S.hx(v)}")
    creds = []
    if with_user:
        creds.append(f"stun app {S.USERNAME:04x} bytes {S.hx(user)}")
    if flags & S.F_LONG or rng.random() < 0.15:
        creds.append(f"stun app {S.REALM:04x} bytes {S.hx(realm)}")
        creds.append(f"stun app {S.NONCE:04x} bytes {S.hx(nonce)}")
    rng.shuffle(creds)
    pos = rng.randrange(len(ops) + 1)
    return ops[:pos] + creds + ops[pos:]


def s_libbuilt(rng, compat=None, flags=None):
    """request built and finished by the library, validated, answered, answer validated and replayed"""
    compat = rng.randrange(4) if compat is None else compat
    flags = rand_flags(rng) if flags is None else flags
    user, realm, nonce, pw = rand_cred(rng)
    key = rng.choice([pw, pw, pw, pw, None, b""])
    tab = [(user, pw)] if key else [(user, key)]
    cap = rng.choice([200, 300, 512, 100, 80, 60])
    method = rng.choice([1, 1, 3, 4, 6, 9])
    txid = S.rand_txid(rng, True)
    kind = rng.choice(["ireq", "ireq", "ireq", "iind"])
    lines = [agent_line(compat, flags, sw=rng.choice(["nosw", "nosw", S.hx(b"verif 1.0")]))]
    lines.append(f"stun {kind} {cap} {method} {txid.hex()}")
    lines += build_ops(rng, compat, flags, user, realm, nonce, with_user=rng.random() < 0.93)
    lines.append(f"stun fin {kx(key)}")
    lines.append(f"stun valm {table_str(tab)}")
    if kind == "ireq":
        if rng.random() < 0.15:
            lines.append(f"stun forget {txid.hex()}")
        r = rng.random()
        if r < 0.6:
            lines.append(f"stun iresp {rng.choice([cap, 200, 64, 40])}")
            for t, v in extra_attrs(rng, rng.choice([0, 1, 2])):
                lines.append(f"stun app {t:04x} bytes {S.hx(v)}")
        elif r < 0.85:
            lines.append(f"stun ierr {rng.choice([cap, 200, 64])} {rng.choice([300, 400, 401, 403, 420, 438, 487, 500])}")
        else:
            lines.append(f"stun unk {rng.choice([cap, 200, 64])}")
        if r < 0.85:
            lines.append("stun fin null")
        lines.append(f"stun valm {table_str(tab)}")
        lines.append(f"stun valm {table_str(tab)}")     # replay: at most once
    return lines


def s_slots(rng, n=None):
    """many outstanding requests (up to capacity + 2), authentic answers in random order, replays"""
    compat = rng.randrange(4)
    flags = rng.choice([S.F_SHORT, S.F_SHORT | S.F_FPR, 0, S.F_SHORT | S.F_NOALIGN])
    n = rng.choice([1, 2, 3, 5, 8, 20]) if n is None else n
    user, realm, nonce, pw = rand_cred(rng)
    lines = [agent_line(compat, flags)]
    reqs = []
    for i in range(n):
        txid = S.rand_txid(rng, True)
        if reqs and rng.random() < 0.1:
            txid = reqs[-1][0]            # same id again (other method or same)
        method = rng.choice([1, 1, 3, 9])
        key = rng.choice([pw, pw, None])
        lines.append(f"stun ireq 64 {method} {txid.hex()}")
        lines.append(f"stun fin {kx(key)}")
        reqs.append((txid, method, key))
    order = list(range(len(reqs))) * 2
    rng.shuffle(order)
    for i in order[:rng.randrange(1, len(order) + 1)]:
        txid, method, key = reqs[i]
        r = rng.random()
        if r < 0.15:
            lines.append(f"stun forget {txid.hex()}")
            continue
        m2 = method if r < 0.85 else rng.choice([1, 3, 9, 4])
        cls = rng.choice([2, 2, 3])
        extra = extra_attrs(rng, 1)
        if cls == 3:
            code = rng.choice([300, 400, 401, 403, 420, 487])
            extra = [(S.ERROR_CODE, b"\0\0" + bytes([code // 100, code % 100]) + b"err")] + extra
        resp = S.authentic(rng, compat, flags, cls, m2, txid, None, None, None, key or b"x", extra,
                           with_mi=bool(key) or rng.random() < 0.3)
        if rng.random() < 0.1:
            resp = corrupt(rng, resp)
        lines.append(f"stun val {S.hx(resp)} none")
    return lines


def s_ltslot(rng):
    """long-term credentials and transaction-slot reuse: request A is finished WITH REALM/USERNAME (its long-term key is
    remembered), answered and retired; request B lands in the same slot, finished with another password and WITHOUT
    REALM/USERNAME (nothing to remember); answers to B signed under A's old key are forgeries, the one under B's is not"""
    compat = rng.randrange(4)
    flags = S.F_LONG | rng.choice([0, 0, S.F_FPR])
    user, realm, nonce, pw1 = rand_cred(rng)
    pw2 = S.rand_bytes(rng, rng.choice([4, 16, 20]))
    lines = [agent_line(compat, flags)]
    for _ in range(rng.choice([0, 0, 1, 3])):          # some other slots in use
        lines += [f"stun ireq 64 1 {S.rand_txid(rng, True).hex()}", f"stun fin {kx(pw1)}"]
    ta = S.rand_txid(rng, True)
    lines.append(f"stun ireq 300 3 {ta.hex()}")
    lines += build_ops(rng, compat, flags, user, realm, nonce)
    lines.append(f"stun fin {kx(pw1)}")
    lines.append(f"stun val {S.hx(S.authentic(rng, compat, flags, 2, 3, ta, user, realm, nonce, pw1, extra_attrs(rng, 1)))} none")
    tb = S.rand_txid(rng, True)
    lines.append(f"stun ireq 300 3 {tb.hex()}")
    for t, v in extra_attrs(rng, 1):
        lines.append(f"stun app {t:04x} bytes {S.hx(v)}")
    lines.append(f"stun fin {kx(pw2)}")
    answers = [pw1, pw2, pw1] if rng.random() < 0.5 else [pw1, pw1, pw2]
    for pw in answers:
        wu = rng.random() < 0.8
        lines.append(f"stun val {S.hx(S.authentic(rng, compat, flags, 2, 3, tb, user if wu else None, realm if wu else None, nonce if wu else None, pw, extra_attrs(rng, 1)))} none")
    return lines


def s_capacity_script(rng, order):
    """replay / reorder script at the saved-transaction capacity: STUN_AGENT_MAX_SAVED_IDS + 2 requests are
    finished (the last two must be refused), every request is answered authentically in `order`
    (forward | reverse | shuffled), every answer is replayed, freed slots are reused"""
    CAP = 200
    compat = rng.randrange(4)
    flags = rng.choice([S.F_SHORT, S.F_SHORT | S.F_FPR, 0])
    pw = b"capacity-key"
    lines = [agent_line(compat, flags)]
    reqs = []
    for i in range(CAP + 2):
        txid = S.rand_txid(rng, True)
        method = rng.choice([1, 3, 9])
        lines.append(f"stun ireq 64 {method} {txid.hex()}")
        lines.append(f"stun fin {kx(pw)}")
        reqs.append((txid, method))
    idx = list(range(len(reqs)))
    if order == "reverse":
        idx.reverse()
    elif order == "shuffled":
        rng.shuffle(idx)

    def answer(i):
        txid, method = reqs[i]
        return S.authentic(rng, compat, flags, 2, method, txid, None, None, None, pw, [])
    for k, i in enumerate(idx):
        resp = answer(i)
        lines.append(f"stun val {S.hx(resp)} none")
        if k % 3 == 0:
            lines.append(f"stun val {S.hx(resp)} none")            # immediate replay
        if k % 50 == 49:                                           # a freed slot is reused
            txid = S.rand_txid(rng, True)
            lines.append(f"stun ireq 64 1 {txid.hex()}")
            lines.append(f"stun fin {kx(pw)}")
            reqs.append((txid, 1))
    for i in rng.sample(range(len(reqs)), 12):                     # late replays / late first answers
        lines.append(f"stun val {S.hx(answer(i))} none")
    lines.append(f"stun forget {reqs[-1][0].hex()}")
    lines.append(f"stun val {S.hx(answer(len(reqs) - 1))} none")
    return lines


def sessions_for(tier, rng):
    sessions, kinds = [], {}

    def add(k, s):
        sessions.append(s)
        kinds[k] = kinds.get(k, 0) + 1
    quick = tier == "quick"
    for _ in range(4000 if quick else 30000):
        add("authentic+corrupt", s_authentic(rng))
    for _ in range(4000 if quick else 30000):
        add("library-built", s_libbuilt(rng))
    for _ in range(600 if quick else 5000):
        add("slots", s_slots(rng))
    for _ in range(400 if quick else 4000):
        add("long-term-slot-reuse", s_ltslot(rng))
    for n in ((198, 200, 202) if quick else (1, 50, 199, 200, 201, 202, 202, 202)):
        add("slots-capacity", s_slots(rng, n))
    for order in ("forward", "reverse", "shuffled") * (1 if quick else 6):
        add("replay-reorder-capacity+2:" + order, s_capacity_script(rng, order))
    # 4 compat x usage-flag sets
    flagsets = range(0, 512, 3) if quick else range(512)
    for compat in range(4):
        for flags in flagsets:
            add("config-sweep", (s_authentic if (flags + compat) % 2 else s_libbuilt)(rng, compat, flags))
    return sessions, kinds


# ----------------------------------------------------------------------------- oracle
def parse_val(o):
    w = o.split()
    d = {"status": w[1], "key": w[3]}
    d["lt"] = w[5]
    return d


LT = {}       # txid -> long-term key the outstanding request was finished with (oracle's own bookkeeping)


def oracle(session, out):
    compat = flags = None
    LT.clear()
    outstanding = []      # (txid, method, key) of requests the library finished and remembers
    cur = None            # (class, method, txid) of the message being built
    for line, o in zip(session, out):
        w = line.split()
        op = w[1]
        if o.startswith("fault") or "CANARY" in o:
            return f"{line[:100]}: {o[:60]}"
        if op == "agent":
            compat, flags = int(w[2]), int(w[3], 16)
            outstanding = []
            LT.clear()
            continue
        if op == "forget":
            ow = o.split()
            txid = bytes.fromhex(w[2])
            has = any(t == txid for t, _, _ in outstanding)
            if (ow[0] == "1") != has:
                return f"forget {w[2]} returned {ow[0]} but the request is {'outstanding' if has else 'not outstanding'}"
            if has:
                i = next(i for i, (t, _, _) in enumerate(outstanding) if t == txid)
                outstanding.pop(i)
            continue
        if op in ("ireq", "iind", "iresp", "ierr", "unk", "fin"):
            if not o.startswith("ret"):
                continue
            ow = o.split()
            ret, nlen = int(ow[1]), ow[3]
            buf = S.unhx(ow[7])
            if op == "fin" and ret > 0 and len(buf) >= 20:
                t = struct.unpack(">H", buf[:2])[0]
                if t == 0x0115:
                    t = 0x0017
                cls, method = S.type_class(t), S.type_method(t)
                key_after = ow[9]
                if cls == 0 and not (compat == S.OC2007 and method == 4):
                    outstanding.append((buf[4:20], method, None if key_after == "null" else S.unhx(key_after)))
                    # the long-term key that request was finished with (stun_agent_finish_message): MD5 (user:realm:password)
                    # when the request itself carries REALM and USERNAME, none otherwise — computed here, not read back
                    LT.pop(bytes(buf[4:20]), None)
                    if flags & S.F_LONG and w[2] != "null":
                        fa = S.attrs_of(buf, not (flags & S.F_NOALIGN))
                        fr, fu = S.ref_find(fa, S.REALM, compat), S.ref_find(fa, S.USERNAME, compat)
                        if fr is not None and fu is not None:
                            LT[bytes(buf[4:20])] = S.long_term_key(buf[fu[0]:fu[0] + fu[1]], buf[fr[0]:fr[0] + fr[1]], S.unhx(w[2]))
                    if len([1 for _ in outstanding]) > 200:
                        return "more than STUN_AGENT_MAX_SAVED_IDS requests are remembered"
            if op == "fin" and ret == 0:
                pass
            continue
        if op in ("val", "valm"):
            if not o.startswith("status"):
                if o in ("bad-op", "toolong"):
                    continue
                return f"{line[:80]}: unexpected output {o[:80]}"
            ow = o.split()
            st = ow[1]
            if op == "val":
                pkt = S.unhx(w[2]); tabs = w[3]
            else:
                pkt = S.unhx(ow[ow.index("pkt") + 1]); tabs = w[2]
            why = val_oracle(pkt, tabs, st, ow, compat, flags, outstanding)
            if why:
                return f"{line[:60]}...: {why}"
    return None


def parse_table(tabs):
    if tabs in ("nocb", "none"):
        return []
    out = []
    for e in tabs.split(";"):
        u, k = e.split("=")
        out.append((S.unhx(u), None if k == "null" else S.unhx(k)))
    return out


def val_oracle(pkt, tabs, st, ow, compat, flags, outstanding):
    padded = not (flags & S.F_NOALIGN)
    if S.verdict(pkt, padded) != len(pkt) or len(pkt) == 0:
        return None if st in ("1", "2") else f"status {st} for a packet the grammar rejects"
    if st in ("1", "2"):
        return f"status {st} for a packet the grammar accepts ({S.hx(pkt)[:80]})"
    attrs = S.attrs_of(pkt, padded)
    t = struct.unpack(">H", pkt[:2])[0]
    if t == 0x0115:
        t = 0x0017
    cls, method = S.type_class(t), S.type_method(t)
    txid = pkt[4:20]
    # --- FINGERPRINT where in use
    if compat in (S.RFC5389, S.MSICE2) and flags & S.F_FPR and st != "3":
        f = S.ref_find(attrs, S.FPR, compat)
        if not f or f[1] != 4:
            return f"status {st} although FINGERPRINT is required and absent"
        got = struct.unpack(">I", pkt[f[0]:f[0] + 4])[0]
        exp = S.fpr_value(pkt, f[0] - 4)
        if got != exp:
            impl = S.ref_find(attrs, S.MS_IMPL, compat)
            if not (compat == S.MSICE2 and impl is None and got == S.fpr_value(pkt, f[0] - 4, typo=True)):
                return f"status {st} with FINGERPRINT {got:08x}, CRC-32 xor 0x5354554e of the preceding bytes is {exp:08x}"
    if st == "3":
        return None
    # --- transaction matching
    if cls in (2, 3):
        match = [i for i, (tid, m, _) in enumerate(outstanding) if tid == txid and m == method]
        if st == "6":
            return "response reported UNMATCHED although a request with this id and method is outstanding" if match else None
        if not match:
            return f"response (status {st}) got past matching with no outstanding request of the same id and method"
        stored_key = outstanding[match[0]][2]
    else:
        if st == "6":
            return "UNMATCHED_RESPONSE for a request / indication"
        match, stored_key = [], None
    # --- integrity
    if st in OKST:
        key_used = None if ow[3] == "null" else S.unhx(ow[3])
        code = S.find_error_code(attrs, pkt, compat) if cls == 3 else None
        exempt = bool(flags & S.F_IGN) or (cls == 3 and code in CRED_ERR) or \
            (cls == 1 and flags & (S.F_LONG | S.F_NOIND))
        mi = S.ref_find(attrs, S.MI, compat)
        user = S.ref_find(attrs, S.USERNAME, compat)
        uname = pkt[user[0]:user[0] + user[1]] if user else b""
        tab = parse_table(tabs)
        tkey = next((k for u, k in tab if u == uname), "absent")
        if not exempt:
            creds = flags & (S.F_SHORT | S.F_LONG)
            if cls in (0, 1) and creds and not (cls == 1 and flags & S.F_LONG):
                if mi is None:
                    return f"status {st} under a credential-using agent for a request without MESSAGE-INTEGRITY"
            # which key had to be used
            if mi is not None and (cls in (0, 1) or flags & S.F_FORCE or stored_key is None):
                if tkey == "absent":
                    return f"status {st}: M-I present, validater knows no key for username {S.hx(uname)}"
                expected_key = tkey
            else:
                expected_key = stored_key
            if expected_key:     # non-null, non-empty: the MAC must be right
                if mi is None:
                    if not (cls == 3 and code in (400, 401)):
                        return f"status {st} without MESSAGE-INTEGRITY although key {S.hx(expected_key)[:16]}.. applies"
                else:
                    if mi[1] != 20:
                        return f"status {st} with a {mi[1]}-byte MESSAGE-INTEGRITY"
                    k = expected_key
                    if flags & S.F_LONG:
                        lt = LT.get(bytes(txid)) if match else None
                        if lt is not None:
                            k = lt         # the key the matching request was finished with
                        else:
                            realm = S.ref_find(attrs, S.REALM, compat)
                            if realm is None or user is None:
                                return f"status {st}: long-term credentials without REALM/USERNAME"
                            k = S.long_term_key(uname, pkt[realm[0]:realm[0] + realm[1]], expected_key)
                    if k is not None:
                        exp = S.mac_expected(pkt, mi[0], compat, k)
                        if pkt[mi[0]:mi[0] + 20] != exp:
                            return (f"status {st} although MESSAGE-INTEGRITY {pkt[mi[0]:mi[0] + 20].hex()} != HMAC-SHA1 "
                                    f"{exp.hex()} of the RFC prefix under the bound key")
                    if key_used != expected_key:
                        return f"status {st}: message key {kx(key_used)} is not the bound key {kx(expected_key)}"
        if match:
            outstanding.pop(match[0])     # accepted: the request is no longer outstanding
    return None


def finish_validate_oracle(session, out):
    """every message the library finishes with a key validates under that key at an agent of the
    same compatibility (the `valm` right after a `fin <key>`)"""
    compat = flags = None
    last_fin = None
    for line, o in zip(session, out):
        w = line.split()
        if w[1] == "agent":
            compat, flags = int(w[2]), int(w[3], 16)
        elif w[1] == "fin":
            ow = o.split()
            last_fin = (w[2], int(ow[1])) if o.startswith("ret") else None
        elif w[1] == "valm" and last_fin and o.startswith("status"):
            keyarg, ret = last_fin
            last_fin = None
            ow = o.split()
            st = ow[1]
            pkt = S.unhx(ow[ow.index("pkt") + 1])
            padded = not (flags & S.F_NOALIGN)
            if ret == 0 or S.verdict(pkt, padded) != len(pkt):
                continue
            tab = parse_table(w[2])
            attrs = S.attrs_of(pkt, padded)
            user = S.ref_find(attrs, S.USERNAME, compat)
            uname = pkt[user[0]:user[0] + user[1]] if user else b""
            tkey = next((k for u, k in tab if u == uname), None)
            t = struct.unpack(">H", pkt[:2])[0]
            cls = S.type_class(0x17 if t == 0x115 else t)
            if cls == 0 and keyarg not in ("null", "-") and tkey == S.unhx(keyarg) and st in ("5", "3"):
                if flags & S.F_LONG and (S.ref_find(attrs, S.REALM, compat) is None or user is None):
                    continue
                return (f"a request finished by the library with key {keyarg[:16]} was rejected with status {st} "
                        f"by an agent of the same compatibility given that key")
    return None


def run(tier, seed):
    chk = vlib.Check("C04", tier, seed)
    chk.cov["trusted_base"] = TRUSTED
    chk.assumptions = ["HMAC-SHA1 and MD5 are functions (same input, same output); nothing else is assumed of them",
                       "transaction ids are supplied by the harness (stun_make_transid replaced at link time)"]
    st = vlib.std_pipeline(chk, MODULE, THEOREMS)
    diverged, ofail = [], []
    if st["libs"]:
        ok, exe, log = vlib.build_harness("stun_drv", multidef=True)
        if not ok:
            chk.note("harness build failed: " + log[-1500:])
            st["libs"] = False
            st["log"] = log
        else:
            gen, kinds = sessions_for(tier, chk.rng)
            corpus = S.load_corpus(vlib.ROOT, "C04")
            hashes = hash_sessions(chk.rng, 40 if tier == "quick" else 400)
            Ss = corpus + hashes + gen
            outs, errs = vlib.run_impl(exe, Ss)
            stc = {}
            distinct = set()
            nev = 0
            for i, (s, o) in enumerate(zip(Ss, outs)):
                if o is None:
                    ofail.append({"session": s, "why": "implementation crashed / aborted (sanitizer report?)",
                                  "stderr": errs.get(i, ("", 0, ""))[2][-1500:]})
                    continue
                why = (hash_oracle(s, o) if s and s[0].split()[1] in ("sha1", "md5", "hmac", "creds", "mac")
                       else oracle(s, o) or finish_validate_oracle(s, o))
                if why:
                    ofail.append({"session": s, "impl_out": [x[:400] for x in o], "why": why})
                for line, x in zip(s, o):
                    w = line.split()
                    if w[1] in ("val", "valm") and x.startswith("status"):
                        nev += 1
                        k = x.split()[1]
                        stc[k] = stc.get(k, 0) + 1
                        if k in OKST:
                            distinct.add(line if w[1] == "val" else x[-200:])
            if os.path.exists(vlib.model_exe()):
                diverged, total = vlib.diff_sessions(exe, Ss)
            chk.cov["evaluations"] = nev
            chk.cov["traces_validated_against_impl"] = len(Ss) - len(diverged)
            chk.cov["distinct_nontrivial"] = len(distinct)
            chk.cov["rule"] = ("one evaluation = one stun_agent_validate call on the real library; non-trivial = distinct packets "
                               "the real library accepted (status SUCCESS / UNKNOWN_*ATTRIBUTE)")
            chk.cov["samples"] = [[l[:160] for l in Ss[len(corpus) + len(hashes)][:4]], [l[:160] for l in Ss[-1][:4]]]
            chk.cov["generator_distribution"] = {"session_kinds": kinds, "validation_status": stc,
                                                 "hash_sessions": len(hashes), "corpus": len(corpus)}
    return conclude(chk, st, diverged, ofail, STREAM)


# ---- the executable model's SHA-1 / MD5 / HMAC vs GnuTLS (RFC vectors + random inputs)
def hash_sessions(rng, n):
    vec = [b"", b"abc", b"a" * 55, b"a" * 56, b"a" * 63, b"a" * 64, b"a" * 65, b"a" * 119, b"a" * 120,
           b"abcdbcdecdefdefgefghfghighijhijkijkljklmklmnlmnomnopnopq", bytes(range(256)) * 5]
    lines = []
    for v in vec:
        lines += [f"stun sha1 {S.hx(v)}", f"stun md5 {S.hx(v)}"]
    # RFC 2202 HMAC-SHA1 test cases 1-3, 6
    lines.append(f"stun hmac {'0b' * 20} {b'Hi There'.hex()}")
    lines.append(f"stun hmac {b'Jefe'.hex()} {b'what do ya want for nothing?'.hex()}")
    lines.append(f"stun hmac {'aa' * 20} {'dd' * 50}")
    lines.append(f"stun hmac {'aa' * 80} {b'Test Using Larger Than Block-Size Key - Hash Key First'.hex()}")
    # RFC 5769 2.4 long-term key
    lines.append(f"stun creds {b'example.org'.hex()} {'e3839ee38388e383aae38383e382afe382b9'} {b'TheMatrIX'.hex()}")
    sessions = [lines]
    for _ in range(n):
        ls = []
        for _ in range(25):
            d = S.rand_bytes(rng, rng.choice([0, 1, 20, 55, 56, 64, 100, rng.randrange(0, 700), rng.randrange(0, 5000)]))
            k = S.rand_bytes(rng, rng.choice([0, 1, 16, 20, 63, 64, 65, 200]))
            ls.append(rng.choice([f"stun sha1 {S.hx(d)}", f"stun md5 {S.hx(d)}", f"stun hmac {S.hx(k)} {S.hx(d)}",
                                  f"stun creds {S.hx(k[:9])} {S.hx(d[:12])} {S.hx(k)}",
                                  f"stun mac {S.hx(d)} {rng.choice([44, 48, 64, len(d), max(44, len(d) - 3)])} {rng.randrange(70000)} {S.hx(k)} {rng.randrange(2)}"]))
        sessions.append(ls)
    return sessions


def hash_oracle(s, o):
    import hashlib, hmac
    for line, x in zip(s, o):
        w = line.split()
        if w[1] == "sha1" and x != hashlib.sha1(S.unhx(w[2])).hexdigest():
            return f"{line[:60]}: library SHA-1 {x}"
        if w[1] == "md5" and x != hashlib.md5(S.unhx(w[2])).hexdigest():
            return f"{line[:60]}: library MD5 {x}"
        if w[1] == "hmac" and x != hmac.new(S.unhx(w[2]), S.unhx(w[3]), hashlib.sha1).hexdigest():
            return f"{line[:60]}: library HMAC {x}"
        if w[1] == "creds" and x != S.long_term_key(S.unhx(w[3]), S.unhx(w[2]), S.unhx(w[4])).hex():
            return f"{line[:60]}: stun_hash_creds {x}"
    return None


def replay(path):
    r = json.load(open(path))
    s = r.get("session")
    if not s:
        print(json.dumps(r, indent=1)[:4000]); return 0
    vlib.ensure_libs(); vlib.extract(); vlib.lake_build(["nicemodel"])
    ok, exe, log = vlib.build_harness("stun_drv", multidef=True)
    io, rc, err = vlib.run_lines(exe, ["reset"] + s)
    mo, _, _ = vlib.run_lines(vlib.model_exe(), ["reset"] + s)
    bad = 0
    for k, l in enumerate(["reset"] + s):
        a = io[k] if k < len(io) else "<crashed>"
        b = mo[k] if k < len(mo) else "<none>"
        if a != b:
            bad += 1
            print(f"{l[:100]}\n   impl : {a[:200]}\n   model: {b[:200]}")
    if len(io) < len(s) + 1:
        print("implementation died:", err[-1500:]); return 1
    why = oracle(s, io[1:]) or finish_validate_oracle(s, io[1:])
    print("oracle:", why, "| differing lines:", bad)
    return 1 if (why or bad) else 0
